#!/bin/sh
# Nothing is compiled or cached: the checks import /repo's working tree and run TLC on /verif/spec.
# This only verifies that the tools the checks need are present.
set -e
command -v java >/dev/null
test -f /opt/veriftools/tla/tla2tools.jar
test -f /opt/veriftools/tla/CommunityModules-deps.jar
test -x /venv/bin/python
cd /verif/spec && java -cp /opt/veriftools/tla/tla2tools.jar:/opt/veriftools/tla/CommunityModules-deps.jar tla2sany.SANY Trace.tla >/dev/null
echo setup ok
