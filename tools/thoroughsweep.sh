#!/bin/sh
# run every registered thorough check once; one line per check with wall-clock seconds.
cd "$(dirname "$0")/.."
for p in ${PROPS:-$(python3 -c "import json;print(' '.join(c['property_id'] for c in json.load(open('MANIFEST.json'))['checks']))")}; do
  t0=$(date +%s)
  out=$(VERIF_SEED=${VERIF_SEED:-0} ./check $p --tier thorough 2>&1); rc=$?
  echo "thorough $p rc=$rc wall=$(( $(date +%s) - t0 ))s $(echo "$out" | tail -1 | cut -c1-200)"
  if [ $rc -ne 0 ]; then echo "$out" | grep -E "VIOLATION|MACHINERY|SUMMARY|Error|error" | head -6 | cut -c1-300; fi
done
