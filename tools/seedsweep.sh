#!/bin/sh
# run every registered quick check under several seeds; one line per (check, seed). Runs in the directory that holds this script's parent.
cd "$(dirname "$0")/.."
for seed in ${SEEDS:-2 3 4 5}; do
  for p in $(python3 -c "import json;print(' '.join(c['property_id'] for c in json.load(open('MANIFEST.json'))['checks']))"); do
    out=$(VERIF_SEED=$seed ./check $p --tier quick 2>&1); rc=$?
    echo "seed=$seed $p rc=$rc $(echo "$out" | tail -1 | cut -c1-200)"
    if [ $rc -ne 0 ]; then echo "$out" | grep -E "VIOLATION|MACHINERY|SUMMARY" | head -4 | cut -c1-300; fi
  done
done
