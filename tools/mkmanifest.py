#!/usr/bin/env python3
"""Writes /verif/MANIFEST.json from the table below (one entry per property)."""
import json, os, subprocess
HERE = os.path.dirname(os.path.dirname(os.path.abspath(__file__)))
TB = ("trusted base: TLC and the TLA+ CommunityModules (Json, IOUtils); the transcription of the library's documented behaviour in spec/*.tla; "
      "the recording hook (construct/lib/veriftrace.py) and the harness encoder of Python values; CPython's io.BytesIO and struct")
CHECKS = {
 "C01": ("trace validation + TLC predicate C01Sym on recorded build/parse sessions; premise (value domain) decided by Sem; TLC model checking of the Sem-driven abstract machine over a bounded program universe (MC_CAM) whose sessions are then stepped through the real library (spec -> code) [theorems Rebuild / Normal on an explicit fragment]", "4.C01",
         "Sessions build(v); parse(bytes) recorded from the real library on random sequential programs to depth 4 and domain-directed values; TLC evaluates C01Sym on the recorded results for every session whose program is well-formed and whose value lies in the domain (decided in the model). Bounded, sampled exploration with an exact oracle: the right level for a for-all over programs x values, where exhaustive enumeration is only possible for tiny scopes."),
 "C02": ("TLC predicates C02Canon / C02Self on recorded parse/build/parse/build sessions; TLC model checking of the Sem-driven abstract machine over a bounded program universe (MC_CAM) whose sessions are then stepped through the real library (spec -> code) [theorems Rebuild / Normal / Tight]", "4.C02",
         "Four-call normalisation sessions from arbitrary, canonical and mutated inputs recorded from the real library; TLC evaluates idempotence and canonical reproduction on the recorded results where the model itself normalises the input."),
 "C03": ("TLC trace validation of recorded calls against the TLA+ reference semantics Sem/Codecs; TLC cross-check Codecs vs RefFormats (MC_Codecs)", "4.C03",
         "Every recorded call (value built, bytes parsed) of every integer/float alias and core construct is compared by TLC with the independent TLA+ reference: bytes, value, consumption, acceptance. Exhaustive for 8/16-bit domains and short inputs over the boundary alphabet, boundary+random for wide domains (limb arithmetic, no 32-bit limit). The TLA+ codecs are themselves checked against closed forms by TLC (MC_Codecs)."),
 "C04": ("TLC predicate C04Equiv on recorded pairs (same call on the interpreter and on the compiled instance) + trace validation of the interpreter side; rendering faithfulness by MC_C11; TLC model checking of the Sem-driven abstract machine over a bounded program universe (MC_CAM) whose sessions are then stepped through the real library (spec -> code) on interpreter and compiled instance", "4.C04",
         "Every compilable program (random, systematic wrapper x leaf universe, expression-heavy conditionals / lengths / counts with string and bytes constants, unary and reflected operators, dependent probe members after every composite) is compiled and every accepted input / buildable value / sizeof is run on both; TLC evaluates equality of value, position and bytes on each recorded pair."),
 "C05": ("TLC predicates C05Total / C05Exact on recorded sizeof/build/parse sessions + trace validation of sizeof; TLC model checking of the Sem-driven abstract machine over a bounded program universe (MC_CAM) whose sessions are then stepped through the real library (spec -> code) [theorems Z-total / Z-exact, negative control]", "4.C05",
         "sizeof with keys present/absent and measured stream advances of build_stream/parse_stream at offsets, recorded from the real library; TLC evaluates totality (integer or SizeofError) and exactness."),
 "C06": ("TLC: CAM root clauses (only ConstructError, termination), C06Prefix, C06Fault on recorded runs incl. injected stream faults at every operation index; TLC model checking of the Sem-driven abstract machine over a bounded program universe (MC_CAM) whose sessions are then stepped through the real library (spec -> code) [theorems Closed / Prefix]; huge length fields judged by the machine's root clause", "4.C06",
         "Fault enumeration on the real library: every truncation offset of canonical encodings, and every index k of the k-th stream operation failing in four modes for parse and build; TLC judges the recorded outcomes (no foreign exception, StreamError where no construct may recover, no value from a strict prefix) and validates acceptance/rejection classes against Sem."),
 "C07": ("TLC trace validation against Sem/Context rules on a shape x path x position universe of probes, for parse, build and sizeof", "4.C07",
         "All recorded probe values (Computed / Bytes / Array over this.x, this._.x, _root, _params, _index, mode flags) in nests of the seven scope/repeat constructs with transparent wrappers are compared by TLC with the frame discipline of the specification, in all three operations."),
 "C08": ("TLC trace validation of every recorded position, Tell/RawCopy offset and inner value in delimiter nests against Sem/Streams; TLC model checking of the Sem-driven abstract machine over a bounded program universe (MC_CAM) whose sessions are then stepped through the real library (spec -> code)", "4.C08",
         "Delimiter nests to depth 4 at start offsets 0..3 with trivial member codecs: every enter/leave position (absolute coordinates), every inner greedy value and every Tell/RawCopy/Pointer observation recorded from the real library must equal the specification's."),
 "C09": ("TLC replay of recorded behaviours through the pushdown machine CAM.tla (PeekRestores, PointerRestores, alternative/element/union clauses) + trace validation at recovering nodes; TLC model checking of the Sem-driven abstract machine over a bounded program universe (MC_CAM) whose sessions are then stepped through the real library (spec -> code); repository tests (core, compiler, gallery formats) recorded and replayed through the machine", "4.C09",
         "Machine-level clauses evaluated by TLC at every leave step of every recorded behaviour (no member semantics needed), plus Sem conformance of positions and values at Peek/Pointer/Select/GreedyRange/Union nodes, over all short inputs for sampled programs and random longer ones, start offsets 0..2."),
 "C13": ("TLC trace validation at constrained nodes (Const, validators, Enum/FlagsEnum/Mapping, Error inside recovering constructs), one-byte domains exhausted", "4.C13",
         "Acceptance, value and bytes in both directions for every one-byte input and value and all label spellings, and ExplicitError never absorbed, compared by TLC with Sem."),
 "C10": ("TLC predicates C10BitRef (native-integer reference packing) and C10.paths (pre-read vs streaming path) + trace validation of both paths against Sem/Streams", "4.C10",
         "Bit-level regions over partitions of 8..32 bits (thorough: 64) with signed/swapped fields, Flag, Padding, nested Struct/Array and Bytewise islands, built on both implementations of the region; TLC checks the built bytes against the big-endian concatenation of two's-complement patterns, the agreement of both paths on bytes and values, and every recorded step against the RestreamedBytesIO buffer machine of Streams.tla."),
 "C11": ("TLC model checking of ReprFaithful (Render + Python-precedence Reparse in TLA+) over all trees to depth 2 with a negative control; TLC trace validation (TraceExpr) of repr text, expr(env) vs Eval, eval(repr) vs expr(env)", "4.C11",
         "Design level: TLC enumerates every expression tree to the depth bound over the full operator table and checks that the rendering, re-parsed under Python's precedence rules, denotes the same function in all small environments (and must find the counter-example under the snapshot's rule). Conformance: the same trees built through the real overloads, evaluated by the library and by Python's own eval of the repr."),
 "C12": ("TLC predicate C12Equiv on recorded pairs (same call on both sides of each documented law and operator spelling)", "4.C12",
         "Every law instance (widths, signedness, swapping, aliases, macros, enum classes vs keywords, display wrappers, operator spellings) is run on both sides through the real factories on all short inputs over the boundary alphabet and on in- and out-of-range values; TLC evaluates extensional equality on each recorded pair."),
 "C14": ("TLC replay through CAM.tla (RawCopy clauses) + TLC predicates C14Verifies / C14Detects / C14SameBytes; hashes uninterpreted with logged graphs; TLC model checking of the Sem-driven abstract machine over a bounded program universe (MC_CAM) whose sessions are then stepped through the real library (spec -> code); repository tests (core, compiler, gallery formats) replayed through the machine", "4.C14",
         "RawCopy extents, offsets and data at every RawCopy leave step of every recorded behaviour (substreams, non-zero offsets); checksums built then parsed; every single-bit corruption of covered region and digest must raise ChecksumError."),
 "C15": ("TLC trace validation against independent definitions of XOR (key cycled), bit rotation of groups, byte/bit reversal; compression codecs uninterpreted", "4.C15",
         "Exhaustive-by-grid keys and rotation amounts x groups (sampled in quick), swapped constructs of size 1..16, four stdlib codecs; built bytes and the inner construct's view on parse are compared by TLC with the definitions in Codecs.tla."),
 "C16": ("TLC model checking of the lazy-object state machine (spec/Lazy.tla, MC_C16: all access histories, negative control) + TLC predicate C16History on recorded access histories against the recorded eager parse", "4.C16",
         "Design level: every access history (any order, repetitions) to the bound over member lists mixing fixed, keyword-sized, length-prefixed and unsizable members: LazyEqualsEager, AccessIsInvisible, SameFinalPosition, CacheSound. Conformance: all permutations for <= 4 members and random histories with repetitions, by name / attribute / index / iteration / slice, performed on the real lazy objects with value and stream position recorded after every access; lazies read by later siblings during the surrounding parse compared with their eager twin."),
 "C17": ("TLC model checking of Session.tla (pool sharing members, two threads, all interleavings at boundary granularity; memoising member as negative control) + TLC predicates C17Same / C17Entry / C17Offset / C17Frozen on recorded histories, forced schedules and entry points", "4.C17",
         "Design level: Pure, Repeatable, Frozen over all interleavings of calls on a pool sharing members. Conformance: random call histories (parse/build/sizeof/compile, succeeding and failing) with every repetition compared and object-graph digests before/after each call; two-thread interleavings forced through the recording hook acting as a gate, 8-thread free-running stress; all entry points."),
 "C18": ("TLC replay through CAM.tla (clauses C18.path / C18.path-shortened at every failing leave step, C18.path-kept) + TLC predicate C18Trunc on truncation sessions; repository tests (core, compiler, gallery formats) recorded and replayed through the machine", "4.C18",
         "Every failing recorded behaviour (all truncation offsets of canonical encodings of nested named structures, every member made unbuildable in turn, random inputs) is replayed by TLC: the path equals the operation prefix plus the Renamed names on the stack where the error was created and is kept while propagating; truncation at j names the members whose recorded extent contains j."),
 "C20": ("TLC model checking of the container heap model (spec/Containers.tla, Hex.tla; MC_C20: equivalence laws, copy independence, hexundump o hexdump) + TLC replay (TraceC20) of operation histories executed on real containers with full three-view projections", "4.C20",
         "Design level: all operation histories to the bound on heaps with public / private / method-shadowing keys and nested containers: Eq reflexive, symmetric, transitive, order- and private-insensitive; shallow copies independent at top level, deep copies and pickle round trips disjoint. Conformance: random histories (set / setattr / del / pop / clear / update / append / copy / deepcopy / pickle with every protocol / search) on real objects, after every step the whole object graph projected through attributes, keys and iteration with identities and equality results, replayed by TLC on the model; hexdump text compared character by character and read back."),
 "C19": ("translation validation: TLC interprets the real export_ksy() document with the KSY interpreter spec/Ksy.tla on canonical encodings and compares identifiers, extents and values with the recorded, Sem-validated parse (TraceKsy.tla)", "4.C19",
         "For every generated construct whose export succeeds (through a JSON-writing stand-in for the absent ruamel.yaml that, like the real representer, refuses non-plain data) and several canonical encodings each, the exported schema is executed by an interpreter written from the Kaitai user guide and compared member by member with what parsing did. Discrepancies of the pinned exporter are listed by construct class in known_findings.json; anything else alarms."),
}
PENDING = {
}
def main():
    commits = subprocess.run(["git", "-C", "/repo", "log", "--format=%h %s"], capture_output=True, text=True).stdout.splitlines()
    hooks = [c.split()[0] for c in commits if "tracing hook" in c]
    man = {
     "version": 1,
     "setup_cmd": "cd /verif && ./setup.sh",
     "hooks": {
      "guard": "CONSTRUCT_VERIF_TRACE",
      "enable": "CONSTRUCT_VERIF_TRACE=1 in the environment before `import construct` (the checks set it themselves). Pure Python: nothing is built or cached, checks import /repo's working tree",
      "baseline_off_cmd": "cd /repo && env -u CONSTRUCT_VERIF_TRACE /venv/bin/python -m pytest -ra -q -p no:cacheprovider --timeout=900 --continue-on-collection-errors",
      "source_commits": hooks[::-1],
      "add_only": True},
     "engines": [
      {"name": "cam-trace", "path": "/verif/spec/Trace.tla", "kind_free_text": "TLC trace validation: construct-boundary behaviours recorded from the real library (hook + harness) are compared with the behaviour Sem prescribes; property predicates of spec/Props.tla evaluated on the recorded sessions", "serves_properties": sorted(CHECKS)},
      {"name": "cam-machine", "path": "/verif/spec/CAM.tla", "kind_free_text": "TLC replay of recorded behaviours through the pushdown machine, one boundary event per state, machine-level clauses at every leave step", "serves_properties": ["C06", "C09", "C14", "C18"]},
      {"name": "mc-design", "path": "/verif/spec", "kind_free_text": "TLC model checking of the specification alone on bounded universes (MC_Codecs, MC_C11, MC_C16, MC_C17, MC_C20, MC_CAM) with negative controls", "serves_properties": ["C01", "C02", "C03", "C04", "C05", "C06", "C08", "C09", "C11", "C14", "C16", "C17", "C20"]},
      {"name": "spec-to-code", "path": "/verif/harness/cvh/speccode.py", "kind_free_text": "sessions explored by TLC on MC_CAM (Universe.tla) are performed on the real objects with the values and bytes the specification produced, recorded and validated against Sem", "serves_properties": ["C01", "C02", "C04", "C05", "C06", "C08", "C09", "C14"]},
      {"name": "repository-tests", "path": "/verif/harness/cvh/pytest_plugin.py", "kind_free_text": "the repository's own tests run under the recording hook; every top-level call replayed through the pushdown machine (CAM.tla)", "serves_properties": ["C09", "C14", "C18"]},
      {"name": "trace-expr / trace-c20 / trace-ksy", "path": "/verif/spec/TraceExpr.tla", "kind_free_text": "TLC validation of recorded expression evaluations, container operation histories and exported KSY documents against ExprRender.tla / Containers.tla / Ksy.tla", "serves_properties": ["C11", "C19", "C20"]}],
     "checks": [],
     "notes": "All checks: ./check <id> [--tier quick|thorough] [--replay PATH]; exit 0 held / 1 VIOLATION / 2 machinery failure. See DESIGN.md.",
     "not_applicable": [{"property_id": k, "reason": v} for k, v in sorted(PENDING.items()) if k not in CHECKS]}
    for pid in sorted(CHECKS):
        tech, ref, text = CHECKS[pid]
        man["checks"].append({
         "property_id": pid,
         "quick_cmd": "./check %s --tier quick" % pid,
         "thorough_cmd": "./check %s --tier thorough" % pid,
         "evidence_file": "/verif/evidence/%s.json" % pid,
         "replay_cmd_template": "./check %s --replay {path}" % pid,
         "engine": "cam-trace",
         "level_claimed": {"category": "translation_validation" if pid == "C19" else "model_checking", "text": text, "design_ref": "DESIGN.md " + ref},
         "level_note": TB,
         "technique": tech})
    with open(os.path.join(HERE, "MANIFEST.json"), "w") as f:
        json.dump(man, f, indent=1)
    print("wrote MANIFEST.json with", len(man["checks"]), "checks")
if __name__ == "__main__":
    main()
