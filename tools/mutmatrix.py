#!/usr/bin/env python3
"""Apply each seeded mutation to /repo, run the given checks (quick), undo. usage: mutmatrix.py [mutation-dir ...] [--checks C01,C03]"""
import json, os, subprocess, sys, time
V=os.path.dirname(os.path.dirname(os.path.abspath(__file__)))
R=os.environ.get("CVH_REPO","/repo")
args=[a for a in sys.argv[1:] if not a.startswith("--")]
checks=None
tier="quick"
for a in sys.argv[1:]:
    if a.startswith("--checks="): checks=a.split("=")[1].split(",")
    if a.startswith("--tier="): tier=a.split("=")[1]
muts=args or sorted(os.listdir(V+"/seeded"))
res={}
for m in muts:
    d=os.path.join(V,"seeded",m)
    meta=json.load(open(d+"/meta.json"))
    prop=meta["property"]
    if meta.get("obsolete"):
        print("%-10s obsolete: %s"%(m, meta["obsolete"][:110]),flush=True); continue
    assert subprocess.run(["git","-C",R,"status","--porcelain"],capture_output=True,text=True).stdout.strip()=="", "repo dirty"
    a=subprocess.run(["git","-C",R,"apply",d+"/patch.diff"],capture_output=True,text=True)
    if a.returncode!=0:
        a=subprocess.run(["git","-C",R,"apply","--3way",d+"/patch.diff"],capture_output=True,text=True)
        if a.returncode!=0:
            print(m,"PATCH DOES NOT APPLY",a.stderr[:200]); subprocess.run(["git","-C",R,"reset","-q","--hard"]); continue
    try:
        for c in (checks or [prop]):
            t0=time.time()
            r=subprocess.run([V+"/check",c,"--tier",tier],capture_output=True,text=True,cwd=V)
            viol=[l for l in r.stdout.splitlines() if l.startswith("VIOLATION")]
            sig=set()
            for l in viol:
                try: sig.add(json.loads(l.split("  ",1)[1]).get("clause"))
                except Exception: pass
            print("%-10s check %s rc=%d violations=%d %s %.0fs %s"%(m,c,r.returncode,len(viol),sorted(sig),time.time()-t0, (r.stdout.splitlines()[-1][:150] if r.returncode==2 else "")),flush=True)
            res[(m,c)]=r.returncode
    finally:
        subprocess.run(["git","-C",R,"reset","-q","--hard"])
