SPECIFICATION Spec
CONSTANTS
  Pool <- MCPool
  Calls <- MCCalls
  NThreads <- MCThreads
  Memo <- MCMemo
INVARIANT Pure
INVARIANT Repeatable
PROPERTY Frozen
CHECK_DEADLOCK FALSE
