-------------------------------- MODULE Lazy --------------------------------
(***************************************************************************)
(* Lazy result objects (LazyStruct / LazyArray / Lazy): a state machine.    *)
(*                                                                         *)
(* After the lazy parse the session owns an object                         *)
(*     [offsets: member index -> absolute offset, cache: index -> value]   *)
(* over a stream that the surrounding code keeps using (position `pos`).   *)
(* `Access(i)` may happen at any later point, in any order, any number of   *)
(* times.  Design of the library (as documented and as repaired, see        *)
(* DESIGN.md): a miss seeks to offsets[i], parses member i there, caches    *)
(* the value and puts the position back.                                    *)
(*                                                                         *)
(* Properties (C16): every value an access returns is the value the eager   *)
(* Struct / Array parse gives that member (LazyEqualsEager); an access      *)
(* leaves the stream position unchanged (AccessIsInvisible); the lazy parse *)
(* ends where the eager parse ends (SameFinalPosition).                     *)
(***************************************************************************)
EXTENDS Props

\* size of member sc found at `off` without parsing it where possible (Construct._actualsize):
\* [ok, v] with v the size; ~ok = SizeofError (the member must really be parsed)
ActualSize(sc0, data, off, c) ==
    LET sc == IF sc0.k = "Renamed" THEN sc0.sub ELSE sc0
        m == Core(sc) IN
    IF m.k = "Prefixed" THEN
        LET l == P(m.lenf, Mem(data, off, 0), c)
            z == IF m.incl THEN Z(m.lenf, c) ELSE [ok |-> TRUE, v |-> 0, err |-> ""]
        IN IF ~l.ok \/ ~IsIntLike(l.v) THEN [ok |-> FALSE, v |-> 0, hard |-> ~l.ok]
           ELSE IF ~z.ok THEN [ok |-> FALSE, v |-> 0, hard |-> FALSE]
           ELSE [ok |-> TRUE, v |-> (Tell(l.s) - off) + AsInt(ToIntV(l.v)) - z.v, hard |-> FALSE]
    ELSE LET z == Z(sc0, c) IN [ok |-> z.ok, v |-> IF z.ok THEN z.v ELSE 0, hard |-> ~z.ok /\ z.err # "SizeofError"]

\* the lazy parse of a member list starting at `start`: offsets table and the members parsed eagerly on the way
RECURSIVE LazyScan(_, _, _, _, _, _, _)
LazyScan(subs, i, data, off, c, offs, cache) ==
    IF i > Len(subs) THEN [ok |-> TRUE, offs |-> Append(offs, off), cache |-> cache, end |-> off]
    ELSE LET a == ActualSize(subs[i], data, off, c) IN
         IF a.ok THEN LazyScan(subs, i + 1, data, off + a.v, c, Append(offs, off), cache)
         ELSE IF a.hard THEN [ok |-> FALSE, offs |-> offs, cache |-> cache, end |-> off]
         ELSE LET r == P(subs[i], Mem(data, off, 0), c) IN
              IF ~r.ok THEN [ok |-> FALSE, offs |-> offs, cache |-> cache, end |-> off]
              ELSE LazyScan(subs, i + 1, data, Tell(r.s),
                            IF NameOf(subs[i]) # "" THEN SetCur(r.c, NameOf(subs[i]), r.v) ELSE r.c,
                            Append(offs, off), cache @@ (i :> r.v))

\* what an access to member i returns, given the object
AccessValue(subs, data, c, obj, i) ==
    IF i \in DOMAIN obj.cache THEN [ok |-> TRUE, v |-> obj.cache[i]]
    ELSE LET r == P(subs[i], Mem(data, obj.offs[i], 0), c) IN [ok |-> r.ok, v |-> r.v]
=============================================================================
