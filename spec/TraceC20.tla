------------------------------ MODULE TraceC20 ------------------------------
(***************************************************************************)
(* Conformance for C20: operation histories executed on real Container /    *)
(* ListContainer objects; after every operation the harness projects the    *)
(* whole object graph through each of the three views (attributes, keys,    *)
(* iteration), with object identities, and records equality results.  TLC   *)
(* replays the history on the heap model of Containers.tla, one operation   *)
(* per step, and compares; hexdump texts are compared with Hex.tla.         *)
(***************************************************************************)
EXTENDS Containers, Hex, Json, IOUtils, TLCExt

Input == JsonDeserialize(IOEnv.TRACE_FILE)
Cases == Input.cases
Done == {Input.done[i] : i \in 1..Len(Input.done)}
VARIABLES cid, done

Apply(h, op) ==
    CASE op.op \in {"set", "setattr"} -> SetItem(h, op.o, op.key, op.val)
      [] op.op \in {"del", "pop", "delattr"} -> DelItem(h, op.o, op.key)
      [] op.op = "clear" -> Clear(h, op.o)
      [] op.op = "update" -> Update(h, op.o, op.src)
      [] op.op = "append" -> AppendL(h, op.o, op.val)
      [] op.op = "copy" -> Copy(h, op.o)
      [] op.op \in {"deepcopy", "pickle"} -> DeepCopy(h, op.o).h
      [] op.op = "newC" -> Append(h, NewC(<<>>, <<>>))
      [] op.op = "newL" -> Append(h, NewL(<<>>))
      [] op.op = "newd" -> Append(h, [cls |-> "d", k |-> <<>>, v |-> <<>>])
      [] op.op = "newl" -> Append(h, [cls |-> "l", k |-> <<>>, v |-> <<>>])
      [] OTHER -> h          \* observations only (eq, search)

\* first clause violated by the observation after a step ("" = none)
ObsDiff(h, st) ==
    IF "failed" \in DOMAIN st.op THEN "operation-raised"
    ELSE IF Len(st.objs) # Len(h) THEN "object-count"
    ELSE IF \E i \in 1..Len(h) : st.objs[i].cls # h[i].cls THEN "class"
    ELSE IF \E i \in 1..Len(h) : st.objs[i].k # h[i].k \/ st.objs[i].v # h[i].v THEN "entries-or-order-or-sharing"
    ELSE IF \E i \in 1..Len(h) : h[i].cls = "C" /\ (st.objs[i].attr # h[i].v \/ st.objs[i].item # h[i].v) THEN "views-coherent"
    ELSE IF \E i \in 1..Len(st.eqs) : st.eqs[i][3] # ObjEq(h, st.eqs[i][1], st.eqs[i][2]) THEN "equality"
    ELSE IF \E i \in 1..Len(st.dicteq) : ~st.dicteq[i] THEN "eq-agrees-with-dict"
    ELSE IF st.op.op = "search_all" /\ st.op.res # SearchAll(h, st.op.o, {st.op.match[i] : i \in 1..Len(st.op.match)}) THEN "search_all"
    \* search() answers None both for "no match" and for a match whose value is None: the harness records <<>> for None
    ELSE IF st.op.op = "search" /\ st.op.res # (LET r == Search1(h, st.op.o, {st.op.match[i] : i \in 1..Len(st.op.match)}) IN IF r.ok /\ r.v # VNone THEN <<r.v>> ELSE <<>>) THEN "search"
    ELSE ""
RECURSIVE Walk(_, _, _)
Walk(cs, h, i) ==
    IF i > Len(cs.steps) THEN [at |-> 0, why |-> ""]
    ELSE LET h2 == Apply(h, cs.steps[i].op)
             d == ObsDiff(h2, cs.steps[i])
         IN IF d # "" THEN [at |-> i, why |-> d] ELSE Walk(cs, h2, i + 1)
HexVerdict(cs) ==
    IF cs.lines # HexDump(cs.data, cs.n) THEN "hexdump-text"
    ELSE IF cs.undump # cs.data THEN "hexundump-inverts"
    ELSE IF HexUndump(cs.lines, cs.n) # cs.data THEN "format-reads-back"
    ELSE ""
\* a dump too long to be handed over whole: its length, the number of lines, the first and last lines with the slices they show,
\* and the ends of what hexundump returns
HexLongVerdict(cs) ==
    LET ow == OffsetWidth(cs.len) IN
    IF cs.nlines # ((cs.len + cs.n - 1) \div cs.n) + 3 THEN "hexdump-text"
    ELSE IF \E i \in 1..Len(cs.win) : cs.win[i].line # DumpLineAt(cs.win[i].slice, cs.win[i].off, cs.n, ow) THEN "hexdump-text"
    ELSE IF cs.undlen # cs.len \/ cs.undhead # cs.datahead \/ cs.undtail # cs.datatail THEN "hexundump-inverts"
    ELSE IF \E i \in 1..Len(cs.win) : UndumpLine(cs.win[i].line, cs.n) # cs.win[i].slice THEN "format-reads-back"
    ELSE ""
Verdict(cs) ==
    IF cs.kind = "hexlong" THEN (LET w == HexLongVerdict(cs) IN [id |-> cs.id, st |-> IF w = "" THEN "ok" ELSE "mismatch", why |-> w, at |-> 0])
    ELSE IF cs.kind = "hex" THEN (LET w == HexVerdict(cs) IN [id |-> cs.id, st |-> IF w = "" THEN "ok" ELSE "mismatch", why |-> w, at |-> 0])
    ELSE LET d == Walk(cs, <<>>, 1) IN [id |-> cs.id, st |-> IF d.why = "" THEN "ok" ELSE "mismatch", why |-> d.why, at |-> d.at]
Init == cid \in {i \in 1..Len(Cases) : Cases[i].id \notin Done} /\ done = FALSE
Next == ~done /\ done' = TRUE /\ cid' = cid /\ PrintT(ToJson(Verdict(Cases[cid])))
=============================================================================
