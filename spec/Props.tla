------------------------------- MODULE Props -------------------------------
(***************************************************************************)
(* The listed properties as predicates over calls.  A call record `cs` is   *)
(* [op, data, start, kw, flt, arg, events, res] -- either recorded from the *)
(* implementation (Trace.tla) or produced by Sem (MC_*.tla, via ModelCall). *)
(* Each predicate returns "ok", "fail" or "na" (premise does not hold).     *)
(***************************************************************************)
EXTENDS Grammar

NoFlt == [k |-> 0, mode |-> "none"]
\* what the model prescribes for a call record
Model(n, cs) ==
    CASE cs.op = "parse"  -> IF cs.flt = NoFlt THEN ParseCall(n, cs.data, cs.start, cs.kw)
                             ELSE ParseFaulty(n, cs.data, cs.start, cs.kw, cs.flt)
      [] cs.op = "build"  -> IF cs.flt = NoFlt THEN BuildCall(n, cs.arg, cs.data, cs.kw)
                             ELSE BuildFaulty(n, cs.arg, cs.data, cs.kw, cs.flt)
      [] cs.op = "sizeof" -> SizeofCall(n, cs.kw)
IsOOM(r) == r.err \in {OutOfModel, "Diverges"} \/ \E i \in 1..Len(r.ev) : r.ev[i].err \in {OutOfModel, "Diverges"}
\* the result part of a call record as the model has it (used by the MC configurations)
BuiltBytes(r, pre) == SubSeq(r.s.data, Len(pre) + 1, Len(r.s.data))
ModelRes(cs, r) ==
    [ok |-> r.ok, err |-> r.err, p |-> Tell(r.s),
     v |-> IF ~r.ok THEN VNone
           ELSE IF cs.op = "build" THEN VBytes(BuiltBytes(r, cs.data))
           ELSE IF cs.op = "sizeof" THEN VInt(r.v) ELSE r.v]
ModelCall(n, cs) == LET r == Model(n, cs) IN [cs EXCEPT !.events = r.ev, !.res = ModelRes(cs, r)]

RECURSIVE HasOpaque(_)
HasOpaque(v) == CASE v.t = "opaque" -> TRUE
                  [] v.t = "list" -> \E i \in 1..Len(v.xs) : HasOpaque(v.xs[i])
                  [] v.t = "dict" -> \E i \in 1..Len(v.v) : HasOpaque(v.v[i])
                  [] OTHER -> FALSE
ValEq(a, b) == HasOpaque(a) \/ HasOpaque(b) \/ PyEq(a, b)

RetOf(cs) == cs.events[Len(cs.events)].v                 \* what the root construct's _build returned
Advance(cs) == IF cs.op = "parse" THEN cs.res.p - cs.start ELSE cs.res.p - Len(cs.data)
Tri(premise, concl) == IF ~premise THEN "na" ELSE IF concl THEN "ok" ELSE "fail"

---------------------------------------------------------------------------
\* C01  parse(build(v)) = v with the derived members filled in.   cs = <<build, parse>>
\* The value domain is the set on which the model itself is symmetric (MC_C01 shows that this
\* contains the explicit domain of the property statement).
C01Sym(n, b, p) ==
    LET mb == BuildCall(n, b.arg, <<>>, b.kw) IN
    Tri(/\ Sequential(n) /\ WellFormed(n, TRUE) /\ b.res.ok
        /\ ~IsOOM(mb) /\ mb.ok
        /\ LET mp == ParseCall(n, mb.s.data, 0, b.kw) IN ~IsOOM(mp) /\ mp.ok /\ PyEq(mp.v, mb.v),
        p.res.ok /\ ValEq(p.res.v, RetOf(b)))

\* C02  build after parse is idempotent and canonical.   cs = <<parse b, build, parse, build>>
C02Canon(n, p1, b2, p2, b3) ==
    Tri(Sequential(n) /\ WellFormed(n, TRUE) /\ p1.res.ok /\ ~IsOOM(Model(n, p1)) /\ ~IsOOM(Model(n, b2)),
        /\ b2.res.ok /\ p2.res.ok /\ b3.res.ok
        /\ ValEq(p1.res.v, p2.res.v) /\ b3.res.v = b2.res.v)
\* bytes the construct itself produced are reproduced exactly.   cs = <<build, parse, build>>
C02Self(n, b1, p, b2) ==
    LET mb == BuildCall(n, b1.arg, <<>>, b1.kw) IN
    Tri(/\ Sequential(n) /\ WellFormed(n, TRUE) /\ b1.res.ok /\ ~IsOOM(mb) /\ mb.ok
        /\ LET mp == ParseCall(n, mb.s.data, 0, b1.kw) IN ~IsOOM(mp) /\ mp.ok
              /\ LET mb2 == BuildCall(n, mp.v, <<>>, b1.kw) IN ~IsOOM(mb2) /\ mb2.ok /\ mb2.s.data = mb.s.data,
        p.res.ok /\ b2.res.ok /\ b2.res.v = b1.res.v)

\* C05  sizeof is exact when it answers.   cs = <<sizeof, build or parse>>
C05Exact(n, z, x) ==
    Tri(z.res.ok /\ x.res.ok /\ ~AnyNode(n, {"ProcessXor", "ProcessRotateLeft", "NullStripped", "Pointer", "Peek", "Seek", "Union", "RestreamData"}),
        ~z.res.v.neg /\ VInt(Advance(x)) = z.res.v)
\* ... and fails only with SizeofError
C05Total(n, z) == Tri(TRUE, z.res.ok \/ z.res.err = "SizeofError")
=============================================================================
