------------------------------- MODULE Props -------------------------------
(***************************************************************************)
(* The listed properties as predicates over calls.  A call record `cs` is   *)
(* [op, data, start, kw, flt, arg, events, res] -- either recorded from the *)
(* implementation (Trace.tla) or produced by Sem (MC_*.tla, via ModelCall). *)
(* Each predicate returns "ok", "fail" or "na" (premise does not hold).     *)
(***************************************************************************)
EXTENDS Grammar, SequencesExt

NoFlt == [k |-> 0, mode |-> "none"]
\* what the model prescribes for a call record
Model(n, cs) ==
    CASE cs.op = "parse"  -> IF cs.flt = NoFlt THEN ParseCall(n, cs.data, cs.start, cs.kw)
                             ELSE ParseFaulty(n, cs.data, cs.start, cs.kw, cs.flt)
      [] cs.op = "build"  -> IF cs.flt = NoFlt THEN BuildCall(n, cs.arg, cs.data, cs.kw)
                             ELSE BuildFaulty(n, cs.arg, cs.data, cs.kw, cs.flt)
      [] cs.op = "sizeof" -> SizeofCall(n, cs.kw)
IsOOM(r) == r.err \in {OutOfModel, "Diverges"} \/ \E i \in 1..Len(r.ev) : r.ev[i].err \in {OutOfModel, "Diverges"}
\* the result part of a call record as the model has it (used by the MC configurations)
BuiltBytes(r, pre) == SubSeq(r.s.data, Len(pre) + 1, Len(r.s.data))
ModelRes(cs, r) ==
    [ok |-> r.ok, err |-> r.err, p |-> Tell(r.s),
     v |-> IF ~r.ok THEN VNone
           ELSE IF cs.op = "build" THEN VBytes(BuiltBytes(r, cs.data))
           ELSE IF cs.op = "sizeof" THEN VInt(r.v) ELSE r.v]
ModelCall(n, cs) == LET r == Model(n, cs) IN [cs EXCEPT !.events = r.ev, !.res = ModelRes(cs, r)]

RECURSIVE HasOpaque(_)
HasOpaque(v) == CASE v.t = "opaque" -> TRUE
                  [] v.t = "list" -> \E i \in 1..Len(v.xs) : HasOpaque(v.xs[i])
                  [] v.t = "dict" -> \E i \in 1..Len(v.v) : HasOpaque(v.v[i])
                  [] OTHER -> FALSE
ValEq(a, b) == HasOpaque(a) \/ HasOpaque(b) \/ PyEq(a, b)

RetOf(cs) == cs.events[Len(cs.events)].v                 \* what the root construct's _build returned
Advance(cs) == IF cs.op = "parse" THEN cs.res.p - cs.start ELSE cs.res.p - Len(cs.data)
Tri(premise, concl) == IF ~premise THEN "na" ELSE IF concl THEN "ok" ELSE "fail"

---------------------------------------------------------------------------
\* C01  parse(build(v)) = v with the derived members filled in.   cs = <<build, parse>>
\* The value domain is the set on which the model itself is symmetric (MC_C01 shows that this
\* contains the explicit domain of the property statement).
C01Sym(n, b, p) ==
    LET mb == BuildCall(n, b.arg, <<>>, b.kw) IN
    Tri(/\ Sequential(n) /\ WellFormed(n, TRUE) /\ b.res.ok
        /\ ~IsOOM(mb) /\ mb.ok
        /\ LET mp == ParseCall(n, mb.s.data, 0, b.kw) IN ~IsOOM(mp) /\ mp.ok /\ PyEq(mp.v, mb.v),
        \* the value built, with the derived members filled in as the specification fills them
        p.res.ok /\ ValEq(p.res.v, mb.v))

\* C02  build after parse is idempotent and canonical.   cs = <<parse b, build, parse, build>>
\* Premise: the model itself normalises this input (MC_C02 shows that it does so on the explicit
\* fragment of the property statement: sequential, well-formed, unambiguous alternatives).
ModelCanon(n, data, kw) ==
    LET p1 == ParseCall(n, data, 0, kw) IN
    /\ ~IsOOM(p1) /\ p1.ok
    /\ LET b2 == BuildCall(n, p1.v, <<>>, kw) IN
       /\ ~IsOOM(b2) /\ b2.ok
       /\ LET p2 == ParseCall(n, b2.s.data, 0, kw) IN
          /\ ~IsOOM(p2) /\ p2.ok /\ PyEq(p1.v, p2.v)
          /\ LET b3 == BuildCall(n, p2.v, <<>>, kw) IN ~IsOOM(b3) /\ b3.ok /\ b3.s.data = b2.s.data
C02Canon(n, p1, b2, p2, b3) ==
    Tri(Sequential(n) /\ WellFormed(n, TRUE) /\ p1.res.ok /\ ModelCanon(n, p1.data, p1.kw),
        /\ b2.res.ok /\ p2.res.ok /\ b3.res.ok
        /\ ValEq(p1.res.v, p2.res.v) /\ b3.res.v = b2.res.v)
\* formats outside the program AST (the gallery: adapters, lambdas): once build accepts what parse returned, the re-encoding is stable.
\* cs = <<parse b, build, parse, build>>; values and bytes enter as digests (uninterpreted)
C02Stable(p1, b2, p2, b3) ==
    Tri(p1.res.ok /\ b2.res.ok, p2.res.ok /\ b3.res.ok /\ p1.res.v = p2.res.v /\ b3.res.v = b2.res.v)
\* bytes the construct itself produced are reproduced exactly.   cs = <<build, parse, build>>
C02Self(n, b1, p, b2) ==
    LET mb == BuildCall(n, b1.arg, <<>>, b1.kw) IN
    Tri(/\ Sequential(n) /\ WellFormed(n, TRUE) /\ b1.res.ok /\ ~IsOOM(mb) /\ mb.ok
        /\ LET mp == ParseCall(n, mb.s.data, 0, b1.kw) IN ~IsOOM(mp) /\ mp.ok
              /\ LET mb2 == BuildCall(n, mp.v, <<>>, b1.kw) IN ~IsOOM(mb2) /\ mb2.ok /\ mb2.s.data = mb.s.data,
        p.res.ok /\ b2.res.ok /\ b2.res.v = b1.res.v)

\* C05  sizeof is exact when it answers.   cs = <<sizeof, build or parse>>
\* a build counts when what it wrote is a valid encoding (RawCopy writes caller-supplied raw data unchecked)
\* judged on the program without its RawCopy wrappers: with them, re-encoding would just copy the raw data again
RECURSIVE Unraw(_)
Unraw(n) ==
    IF n.k = "RawCopy" THEN Unraw(n.sub)
    ELSE [f \in DOMAIN n |->
            CASE f \in {"sub", "lenf", "cf", "then", "else", "default", "field"} -> Unraw(n[f])
              [] f \in {"subs", "cv"} -> [i \in 1..Len(n[f]) |-> Unraw(n[f][i])]
              [] OTHER -> n[f]]
ValidEncoding(n, x) ==
    LET bytes == IF x.op = "build" THEN x.res.v.b ELSE SubSeq(x.data, x.start + 1, x.res.p)
        u == Unraw(n)
        mp == ParseCall(u, bytes, 0, x.kw)
    IN /\ ~IsOOM(mp) /\ mp.ok /\ Tell(mp.s) = Len(bytes)
       /\ LET mb == BuildCall(u, mp.v, <<>>, x.kw) IN ~IsOOM(mb) /\ mb.ok /\ mb.s.data = bytes
C05Exact(n, z, x) ==
    Tri(z.res.ok /\ x.res.ok /\ ~AnyNode(n, {"ProcessXor", "ProcessRotateLeft", "NullStripped", "Seek", "Pointer", "RestreamData"})
        /\ (AnyNode(n, {"RawCopy"}) => ValidEncoding(n, x)),
        ~z.res.v.neg /\ VInt(Advance(x)) = z.res.v)
\* ... and fails only with SizeofError
\* premise "validly parameterised": the model answers or says SizeofError (negative lengths, modulus < 2,
\* parameters of the wrong type are outside the statement)
C05Total(n, z) == LET m == Model(n, z) IN
    Tri(~IsOOM(m) /\ ((m.ok /\ m.v >= 0) \/ m.err = "SizeofError"), (z.res.ok /\ ~z.res.v.neg) \/ z.res.err = "SizeofError")

---------------------------------------------------------------------------
\* C06  no value from fewer bytes than the format requires.   cs = <<build, parse of a strict prefix>>
C06Prefix(n, b, p) ==
    Tri(NoGreedyOptLookahead(n) /\ b.res.ok /\ Len(p.data) - p.start < Len(b.res.v.b)
        \* the encoding is canonical: the format needs all of it (a terminator that also occurs inside the data does not delimit)
        /\ (LET mp == ParseCall(n, b.res.v.b, 0, b.kw) IN ~IsOOM(mp) /\ mp.ok /\ Tell(mp.s) = Len(b.res.v.b))
        /\ SubSeq(p.data, p.start + 1, Len(p.data)) = SubSeq(b.res.v.b, 1, Len(p.data) - p.start),
        ~p.res.ok /\ p.res.err = "StreamError")
\* a failing stream surfaces as StreamError.   cs = <<fault-free call, same call with a fault>>
\* (judged by outcome, not by which operation was hit: a short transfer of nothing and a non-seekable
\* stream that is never sought are not faults)
C06Fault(n, clean, f) ==
    Tri(clean.res.err # "Watchdog" /\ f.res.err # "Watchdog",
        /\ (f.res.ok \/ IsConstructError(f.res.err))
        \* (a construct may take a failure of its member for "no match" only when parsing: on build the alternatives are tried on a
        \* scratch buffer and the chosen bytes are then written to the stream, where a fault is a fault)
        /\ (NoRecover(n) \/ f.op = "build") =>
              \/ (~f.res.ok /\ f.res.err = "StreamError")
              \/ (f.flt.mode # "raise" /\ f.res.ok = clean.res.ok /\ f.res.err = clean.res.err /\ f.res.v = clean.res.v)
              \* a short read-to-end-of-stream cannot be told from end of stream
              \/ (f.flt.mode = "short" /\ ~NoGreedyOptLookahead(n)))

\* C12  documented equivalences.   cs = <<call on lhs, the same call on rhs>> (programs may differ)
C12Equiv(l, r) ==
    Tri(TRUE, /\ l.res.ok = r.res.ok
              /\ l.res.ok => (ValEq(l.res.v, r.res.v) /\ (l.op = "parse" => l.res.p = r.res.p)))

\* C14  checksums built always verify; corruption is detected
\* (for values of the covered member's domain: the specification itself reads its own encoding back -- a text with an embedded
\* terminator, for instance, is cut short on parsing and then covers other bytes than were digested)
C14Verifies(n, b, p) ==
    LET mb == BuildCall(n, b.arg, <<>>, b.kw) IN
    Tri(b.res.ok /\ ~IsOOM(mb) /\ mb.ok /\ (LET mp == ParseCall(n, mb.s.data, 0, b.kw) IN ~IsOOM(mp) /\ mp.ok), p.res.ok)
C14Detects(n, b, p) == Tri(b.res.ok /\ p.data # b.res.v.b, ~p.res.ok /\ p.res.err = "ChecksumError")
\* RawCopy: building from value or from data emits the same bytes.  cs = <<build {value}, build {data}>>
C14SameBytes(n, bv, bd) == Tri(bv.res.ok, bd.res.ok /\ bd.res.v = bv.res.v)

\* C18  truncation localises: the error path names the members whose extent contains the cut.
\* cs = <<parse of a canonical encoding (successful), parse of its prefix of length j>>
RECURSIVE ChainAt(_, _, _, _, _)
\* names of the Renamed nodes (outermost first) whose extent [pin, pout) in the successful behaviour contains j.
\* Members of a region with coordinates of its own (bit-level and transformed regions) are not placed: their positions are
\* not offsets of the root stream.  Result entries: [nm, at]; an entry with nm = "" and at = 0 marks "j lies inside such a region".
RelCoordKinds == {"Transformed", "Restreamed", "ProcessXor", "ProcessRotateLeft", "Compressed", "RestreamData"}
ChainAt(ev, i, j, opens, acc) ==
    IF i > Len(ev) THEN acc
    ELSE IF ev[i].e = "in" THEN
        LET inrel == opens # <<>> /\ (opens[Len(opens)].rel \/ opens[Len(opens)].k \in RelCoordKinds) IN
        ChainAt(ev, i + 1, j, Append(opens, [nm |-> ev[i].nm, k |-> ev[i].k, p |-> ev[i].p, at |-> i, rel |-> inrel]), acc)
    ELSE LET o == opens[Len(opens)]
             hit == ~o.rel /\ o.p <= j /\ j < ev[i].p IN
         ChainAt(ev, i + 1, j, SubSeq(opens, 1, Len(opens) - 1),
                 IF hit /\ o.nm # "" THEN Append(acc, [nm |-> o.nm, at |-> o.at])
                 ELSE IF hit /\ o.k \in RelCoordKinds THEN Append(acc, [nm |-> "", at |-> 0])
                 ELSE acc)
SortByAt(xs) == SortSeq(xs, LAMBDA a, b : a.at < b.at)
PreReading == {"Prefixed", "FixedSized", "Transformed", "Restreamed", "NullTerminated", "NullStripped", "ProcessXor",
               "ProcessRotateLeft", "OffsettedEnd", "Compressed", "Padded", "Aligned", "RawCopy", "Checksum"}
IsPrefixSeq(a, b) == Len(a) <= Len(b) /\ SubSeq(b, 1, Len(a)) = a
C18Trunc(n, full, cut) ==
    LET j == Len(cut.data)
        \* the members that cover offset j: read off the events the specification prescribes for the full parse (the recorded ones where the
        \* program is outside the model), so that a name lost by the code everywhere -- in the events and in the path alike -- is still missed
        mp == ParseCall(n, full.data, full.start, full.kw)
        evs == IF ~IsOOM(mp) /\ mp.ok THEN mp.ev ELSE full.events
        all == ChainAt(evs, 1, j, <<>>, <<>>)
        chain == SortByAt(SelectSeq(all, LAMBDA x : x.at # 0))
        inrel == \E i \in 1..Len(all) : all[i].at = 0          \* the cut lies inside a bit-level / transformed region
        names == <<"(parsing)">> \o [i \in 1..Len(chain) |-> chain[i].nm]
    \* NullStripped removes trailing pad bytes of whatever is left: after a cut the member boundaries inside it move
    IN Tri(Sequential(n) /\ NoRecover(n) /\ ~AnyNode(n, {"NullStripped"}) /\ ~HasNonConsumingTerminator(n) /\ full.res.ok /\ ~cut.res.ok /\ IsConstructError(cut.res.err) /\ j < full.res.p,
           \* (inside such a region the members of the region may follow the placed names)
           /\ (IsPrefixSeq(cut.res.path, names) \/ (inrel /\ IsPrefixSeq(names, cut.res.path)))
           /\ (~AnyNode(n, PreReading)) => cut.res.path = names)

\* C10  bit-level packing: the built bytes are the big-endian integer made of the fields' two's-complement patterns.
\* cs = <<build of Bitwise(Struct(flat fields)) from a dict>>; fields: BitsInteger (const width), Flag, Padding, Bit/Nibble/Octet
FieldWidth(f) == LET m == Core(IF f.k = "Renamed" THEN f.sub ELSE f) IN
    CASE m.k = "BitsInteger" -> AsInt(m.len.v) [] m.k = "Flag" -> 1 [] m.k = "Padded" -> AsInt(m.len.v) [] OTHER -> -1
FlatBitFields(n) == LET m == Core(n) IN
    m.k \in {"Transformed", "Restreamed"} /\ Core(m.sub).k = "Struct" /\
    \A i \in 1..Len(Core(m.sub).subs) :
        LET f == Core(m.sub).subs[i]  g == Core(IF f.k = "Renamed" THEN f.sub ELSE f) IN
        /\ g.k \in {"BitsInteger", "Flag", "Padded"}
        /\ (g.k = "BitsInteger" => g.len.x = "const" /\ g.swapped.x = "const")
        /\ (g.k = "Padded" => g.len.x = "const" /\ Core(g.sub).k = "Pass")
\* the pattern of one field as an integer in [0, 2^w): value mod 2^w, bytes reversed for swapped fields
RECURSIVE RefPack(_, _, _, _)
RefPack(fields, obj, i, acc) ==       \* acc: native integer so far (region <= 24 bits)
    IF i > Len(fields) THEN acc
    ELSE LET f == fields[i]
             g == Core(IF f.k = "Renamed" THEN f.sub ELSE f)
             w == FieldWidth(f)
             v == IF f.k = "Renamed" /\ DHas(obj, f.name) THEN DGet(obj, f.name) ELSE VNone
             raw == CASE g.k = "Flag" -> IF Truthy(v) THEN 1 ELSE 0
                      [] g.k = "Padded" -> 0
                      [] OTHER -> LET x == Num(v) IN IF x < 0 THEN x + Pow2(w) ELSE x
             pat == IF g.k = "BitsInteger" /\ Truthy(g.swapped.v) THEN BytesToNat(Rev(BitsToBytes(NatToBits(raw, w)))) ELSE raw
         IN RefPack(fields, obj, i + 1, acc * Pow2(w) + pat)
RECURSIVE SumWidths(_, _)
SumWidths(fields, i) == IF i > Len(fields) THEN 0 ELSE FieldWidth(fields[i]) + SumWidths(fields, i + 1)
C10BitRef(n, b) ==
    LET fields == Core(Core(n).sub).subs
        total == SumWidths(fields, 1)
    IN Tri(FlatBitFields(n) /\ b.res.ok /\ b.arg.t = "dict" /\ total <= 24 /\ total % 8 = 0
           /\ \A i \in 1..Len(fields) : (Core(IF fields[i].k = "Renamed" THEN fields[i].sub ELSE fields[i]).k = "BitsInteger"
                   => fields[i].k = "Renamed" /\ DHas(b.arg, fields[i].name) /\ IsIntLike(DGet(b.arg, fields[i].name))
                      /\ NumOk(DGet(b.arg, fields[i].name))),
           b.res.v.b = PadLeft(NatToBytes(RefPack(fields, b.arg, 1, 0)), total \div 8))

\* C04  a compiled construct behaves like the construct it was compiled from (nothing is claimed where the original rejects).
\* cs = <<call on the interpreter, the same call on the compiled instance>>
\* excluded by documentation: look-ahead over truncated data (generated code omits the checks that turn a short read into
\* the error Peek recovers from)
\* the interpreter's run recovered (Peek, Select, Optional, GreedyRange) from running out of data: generated code does not notice short reads
AbsorbedTruncation(i) == \E k \in 1..Len(i.events) : i.events[k].e = "out" /\ ~i.events[k].ok /\ i.events[k].err = "StreamError"
TruncatedLookahead(n, i) == AnyNode(n, {"Peek"}) /\ \E k \in 1..Len(i.events) : i.events[k].e = "out" /\ ~i.events[k].ok /\ i.events[k].err = "StreamError"
C04Equiv(n, i, c) ==
    Tri(i.res.ok /\ ~AbsorbedTruncation(i),
        c.res.ok /\ ValEq(i.res.v, c.res.v) /\ (i.op = "parse" => i.res.p = c.res.p))

\* C16  lazy parsing is observationally equal to eager parsing under any access order.
\* eager: the recorded parse of the eager twin (Struct / Array / the bare member) of the same bytes;
\* lz: [p: final position of the lazy parse, kind: "struct" | "array" | "thunk",
\*      hist: sequence of [i: member index (1-based), nm: member name, ok, v: value returned, pb, pa: stream position before / after]]
C16History(eager, lz) ==
    \* a Lazy(x) whose member cannot be sized declines with SizeofError (it has no offsets table to fall back on)
    Tri(eager.res.ok /\ ~(lz.kind = "thunk" /\ ~lz.ok /\ lz.err = "SizeofError"),
        /\ lz.ok /\ lz.p = eager.res.p
        /\ \A k \in 1..Len(lz.hist) :
              LET h == lz.hist[k]
                  ev == CASE lz.kind = "struct" -> (IF DHas(eager.res.v, h.nm) THEN DGet(eager.res.v, h.nm) ELSE VNone)
                          [] lz.kind = "array" -> eager.res.v.xs[h.i]
                          [] OTHER -> eager.res.v
              IN h.ok /\ ValEq(h.v, ev) /\ h.pa = h.pb)

\* the lazy twin inside a surrounding parse: where the eager parse returns, the lazy one returns the same (a member that is skipped by its
\* size is not validated, so the lazy parse may return where the eager one rejects)
C16Eager(eager, lz) == Tri(eager.res.ok, lz.res.ok /\ ValEq(eager.res.v, lz.res.v) /\ eager.res.p = lz.res.p)

\* C09  Pointer over another stream (stream=...): that stream is where the member is processed, and it is put back where it stood.
\* x = [before, after: position of the other stream around the call, at: where the member started on it, want: the target offset]
C09AltStream(call, x) == Tri(call.res.ok, x.after = x.before /\ x.at = x.want)

\* C17  results do not depend on call history, schedule or entry point.
\* identical calls (same construct, operation, input, keywords) at two points of a history / in a schedule and alone
\* (a call cut by the recorder's event budget has no outcome to compare)
Cut(a, b) == a.res.err = "Watchdog" \/ b.res.err = "Watchdog"
C17Same(a, b) == Tri(~Cut(a, b), a.res.ok = b.res.ok /\ a.res.err = b.res.err /\ (a.res.ok => ValEq(a.res.v, b.res.v) /\ a.res.p - a.start = b.res.p - b.start))
\* entry points: values (parse family) or bytes (build family) agree; positions are entry-point specific
C17Entry(a, b) == Tri(~Cut(a, b), a.res.ok = b.res.ok /\ (a.res.ok => ValEq(a.res.v, b.res.v)) /\ (~a.res.ok => a.res.err = b.res.err))
\* parse_stream at another starting offset: equal values, unless the construct observes absolute positions
\* members whose value is an absolute position, or is found at one: Tell, RawCopy, Seek (it returns the position it reaches), a Pointer
\* to an offset counted from the start of the stream (a target counted from the end of a region does not depend on where the data starts)
RECURSIVE PosDep(_, _)
PosDep(n, inreg) ==
    LET m == Core(n)  ks == Kids(n)  r2 == inreg \/ m.k \in {"FixedSized", "Prefixed"} IN
    \/ m.k \in {"Tell", "RawCopy", "Seek"}
    \* (outside a region a target counted from the end can lie before the place the data starts at)
    \/ (m.k = "Pointer" /\ ~(inreg /\ m.off.x = "const" /\ m.off.v.t = "int" /\ m.off.v.neg))
    \/ \E i \in 1..Len(ks) : PosDep(ks[i], r2)
PosDependent(n) == PosDep(n, FALSE)
C17Offset(n, a, b) == Tri(~Cut(a, b) /\ ~PosDependent(n),
                          a.res.ok = b.res.ok /\ a.res.err = b.res.err /\ (a.res.ok => ValEq(a.res.v, b.res.v) /\ a.res.p - a.start = b.res.p - b.start))
\* construct objects are not mutated by use: structural digests of the object graphs of the pool before and after a call
C17Frozen(x) == Tri(TRUE, x.before = x.after)
=============================================================================
