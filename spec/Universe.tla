------------------------------ MODULE Universe ------------------------------
(***************************************************************************)
(* A bounded universe of programs, defined by a grammar in the surface      *)
(* syntax of the library (the same node records the harness realizes into   *)
(* real construct objects), and of inputs.  MC_CAM explores the Construct   *)
(* Abstract Machine over it exhaustively and emits every session it visits, *)
(* so that the same behaviours are then stepped through the implementation. *)
(***************************************************************************)
EXTENDS Props, IOUtils

Al(nm) == [k |-> "Alias", name |-> nm]
ByteN == Al("Byte")
Ren(nm, cp, sub) == [k |-> "Renamed", name |-> nm, ncp |-> <<cp>>, sub |-> sub]
MA(x) == Ren("a", 97, x)
MB(x) == Ren("b", 98, x)
MC(x) == Ren("c", 99, x)
BytesN(e) == [k |-> "Bytes", len |-> e]
ConstN(b) == [k |-> "Const", val |-> VBytes(b), sub |-> BytesN(CInt(Len(b)))]
StructN(subs) == [k |-> "Struct", subs |-> subs]
SeqN(subs) == [k |-> "Sequence", subs |-> subs]
ThisA == ThisItem("a")
EqE(l, r) == [x |-> "bin", op |-> "==", l |-> l, r |-> r]
ObjE == [x |-> "obj"]

PrefixedN(lf, x) == [k |-> "Prefixed", lenf |-> lf, sub |-> x, incl |-> FALSE]
FixedN(e, x) == [k |-> "FixedSized", len |-> e, sub |-> x]
PaddedN(e, x) == [k |-> "Padded", len |-> e, sub |-> x, pat |-> 0]
AlignedN(m, x) == [k |-> "Aligned", mod |-> CInt(m), sub |-> x, pat |-> 0]
NullTermN(x, inc, con, req) == [k |-> "NullTerminated", sub |-> x, term |-> <<0>>, include |-> inc, consume |-> con, require |-> req]
ArrayN(e, x) == [k |-> "Array", count |-> e, sub |-> x, discard |-> FALSE]
GreedyRangeN(x) == [k |-> "GreedyRange", sub |-> x, discard |-> FALSE]
RepeatUntilN(pred, x) == [k |-> "RepeatUntil", pred |-> pred, sub |-> x, discard |-> FALSE]
OptionalN(x) == [k |-> "Optional", sub |-> x]
PeekN(x) == [k |-> "Peek", sub |-> x]
PointerN(e, x) == [k |-> "Pointer", off |-> e, sub |-> x]
RawCopyN(x) == [k |-> "RawCopy", sub |-> x]
SelectN(subs) == [k |-> "Select", subs |-> subs]
UnionN(from, subs) == [k |-> "Union", from |-> from, subs |-> subs]
IfN(cond, x) == [k |-> "If", cond |-> cond, sub |-> x]
IfThenElseN(cond, a, b) == [k |-> "IfThenElse", cond |-> cond, then |-> a, else |-> b]
SwitchN(key, ck, cv, dflt) == [k |-> "Switch", key |-> key, ck |-> ck, cv |-> cv, default |-> dflt]
StopIfN(cond) == [k |-> "StopIf", cond |-> cond]
ComputedN(e) == [k |-> "Computed", f |-> e]
CheckN(e) == [k |-> "Check", f |-> e]
DefaultN(x, v) == [k |-> "Default", sub |-> x, val |-> CInt(v)]
RebuildN(x, e) == [k |-> "Rebuild", sub |-> x, f |-> e]
PaddingN(n) == [k |-> "Padding", len |-> CInt(n), pat |-> 0]
PrefixedArrayN(cf, x) == [k |-> "PrefixedArray", cf |-> cf, sub |-> x]
FocusedN(sel, subs) == [k |-> "FocusedSeq", sel |-> CStrV(sel), subs |-> subs]
NullStrippedN(x) == [k |-> "NullStripped", sub |-> x, pad |-> <<0>>]
BitsIntN(w) == [k |-> "BitsInteger", len |-> CInt(w), signed |-> FALSE, swapped |-> CBool(FALSE)]
BitStructN(subs) == [k |-> "BitStruct", subs |-> subs]

Thorough == "MC_TIER" \in DOMAIN IOEnv /\ IOEnv.MC_TIER = "thorough"

\* leaves: one per codec family, plus the members that consume nothing
LeavesCore == <<ByteN, Al("Int16ub"), Al("Int16sl"), [k |-> "VarInt"], [k |-> "Flag"], BytesN(CInt(2)), GreedyBytesN,
                ConstN(<<1>>), PassN, [k |-> "Tell"]>>
LeavesMore == <<Al("Int8sb"), Al("Int24ub"), [k |-> "ZigZag"], PaddingN(1), [k |-> "Terminated"], [k |-> "CString", enc |-> "utf8"],
                [k |-> "Error"], BytesN(CInt(0))>>
Leaves == IF Thorough THEN LeavesCore \o LeavesMore ELSE LeavesCore
\* small leaves for the two-level nests
LeavesSmall == <<ByteN, GreedyBytesN, Al("Int16ub")>> \o (IF Thorough THEN <<[k |-> "VarInt"], [k |-> "Tell"], PassN>> ELSE <<>>)

\* one-level wrappers
Wraps(x) == <<PrefixedN(ByteN, x), FixedN(CInt(2), x), FixedN(CInt(3), x), PaddedN(CInt(3), x), AlignedN(2, x),
          NullTermN(x, FALSE, TRUE, TRUE), ArrayN(CInt(2), x), GreedyRangeN(x), OptionalN(x), PeekN(x), PointerN(CInt(1), x),
          RawCopyN(x), SelectN(<<x, ByteN>>), SelectN(<<x, PassN>>)>>
       \o (IF Thorough THEN <<PrefixedN([k |-> "VarInt"], x), [k |-> "Prefixed", lenf |-> ByteN, sub |-> x, incl |-> TRUE],
                              NullTermN(x, TRUE, TRUE, TRUE), NullTermN(x, FALSE, FALSE, TRUE), NullTermN(x, FALSE, TRUE, FALSE),
                              PrefixedArrayN(ByteN, x), DefaultN(x, 7), NullStrippedN(x), FixedN(CInt(0), x),
                              UnionN(CInt(0), <<MA(x), MB(ByteN)>>), UnionN([x |-> "const", v |-> VNone], <<ConstN(<<1>>), MA(x), PaddingN(1)>>),
                              RepeatUntilN(EqE(ObjE, CInt(0)), x)>> ELSE <<>>)

Concat(ss) == FoldLeft(LAMBDA acc, s : acc \o s, <<>>, ss)
MapS(f(_), s) == [i \in 1..Len(s) |-> f(s[i])]

S1 == Leaves \o Concat(MapS(Wraps, Leaves))
\* a wrapped member between neighbours
S2 == Concat(MapS(LAMBDA l : MapS(LAMBDA w : StructN(<<MA(w), MB(ByteN)>>), Wraps(l)), LeavesSmall))
      \o Concat(MapS(LAMBDA l : MapS(LAMBDA w : StructN(<<MA(ByteN), MB(w)>>), Wraps(l)), LeavesSmall))
\* two-level nests
LeavesNest == IF Thorough THEN LeavesSmall ELSE <<ByteN, GreedyBytesN>>
S3 == Concat(MapS(LAMBDA l : Concat(MapS(Wraps, Wraps(l))), LeavesNest))
\* members that depend on the context
S4 == << StructN(<<MA(ByteN), MB(BytesN(ThisA))>>),
         StructN(<<MA(ByteN), MB(ArrayN(ThisA, ByteN))>>),
         StructN(<<MA(ByteN), MB(FixedN(ThisA, GreedyBytesN))>>),
         StructN(<<MA(ByteN), MB(PaddedN(ThisA, ByteN))>>),
         StructN(<<MA(ByteN), MB(IfN(ThisA, ByteN))>>),
         StructN(<<MA(ByteN), MB(IfThenElseN(EqE(ThisA, CInt(1)), ByteN, Al("Int16ub")))>>),
         StructN(<<MA(ByteN), MB(SwitchN(ThisA, <<VInt(1), VInt(2)>>, <<ByteN, Al("Int16ub")>>, PassN))>>),
         StructN(<<MA(ByteN), MB(PointerN(ThisA, ByteN))>>),
         StructN(<<MA(ByteN), StopIfN(EqE(ThisA, CInt(0))), MB(ByteN)>>),
         StructN(<<MA(ByteN), MB(ComputedN(ThisA)), MC(ByteN)>>),
         StructN(<<MA(ByteN), CheckN(EqE(ThisA, CInt(1))), MB(ByteN)>>),
         StructN(<<MA(RebuildN(ByteN, [x |-> "func", f |-> "len_", a |-> ThisItem("b")])), MB(BytesN(ThisA))>>),
         StructN(<<MA(PeekN(ByteN)), MB(Al("Int16ub"))>>),
         StructN(<<MA(StructN(<<MA(ByteN), MB(ByteN)>>)), MB(BytesN([x |-> "item", o |-> ThisA, n |-> "a"]))>>),
         SeqN(<<ByteN, GreedyRangeN(ConstN(<<1>>)), ByteN>>),
         SeqN(<<OptionalN(ConstN(<<1>>)), ByteN>>),
         RepeatUntilN(EqE(ObjE, CInt(0)), ByteN),
         FocusedN(<<98>>, <<MA(ConstN(<<1>>)), MB(Al("Int16ub"))>>),
         BitStructN(<<MA(BitsIntN(3)), MB([k |-> "Flag"]), MC(BitsIntN(4))>>),
         UnionN([x |-> "const", v |-> VNone], <<BytesN(CInt(2)), MA(ByteN), PaddingN(1), MB(Al("Int16ub"))>>),
         UnionN(CInt(2), <<ConstN(<<1>>), MA(Al("Int16ub")), MB(ByteN)>>),
         UnionN(CInt(0), <<MA(PrefixedN(ByteN, [k |-> "Tell"])), MB(ByteN)>>),
         UnionN(CStrV(<<98>>), <<ByteN, MB(Al("Int16ub")), MC(ByteN)>>),
         UnionN(CStrV(<<99>>), <<MA(ByteN), ConstN(<<1>>), PaddingN(2), MC(Al("Int24ub"))>>),
         UnionN(CStrV(<<97>>), <<MA(PrefixedN(ByteN, PassN)), MB(ByteN)>>),
         UnionN(CInt(1), <<MA(ByteN), MB(PaddedN(CInt(2), PrefixedN(ByteN, PassN))), MC(Al("Int16ub"))>>),
         PrefixedN(ByteN, StructN(<<MA([k |-> "Tell"]), MB(GreedyBytesN), MC([k |-> "Tell"])>>)),
         StructN(<<MA(ByteN), MB(PrefixedN(ByteN, RawCopyN(GreedyBytesN))), MC([k |-> "Tell"])>>),
         StructN(<<MA(ByteN), MB(PaddedN(CInt(2), StopIfN(CBool(TRUE))))>>) >>

ProgsAll == S1 \o S4 \o S2 \o S3
\* the part of the universe a check is about
FocusSet == IF "MC_FOCUS" \in DOMAIN IOEnv THEN IOEnv.MC_FOCUS ELSE "all"
FocusKinds ==
    CASE FocusSet = "C09" -> {"Peek", "Pointer", "Select", "GreedyRange", "Union"}
      [] FocusSet = "C08" -> {"Prefixed", "FixedSized", "NullTerminated", "NullStripped", "Padded", "Aligned"}
      [] FocusSet = "C14" -> {"RawCopy"}
      [] FocusSet = "StopIf" -> {"StopIf"}
      [] OTHER -> {}
UProgs == IF FocusKinds = {} THEN ProgsAll ELSE SelectSeq(ProgsAll, LAMBDA p : AnyNode(p, FocusKinds))

Alphabet == <<0, 1, 2, 255>>
RECURSIVE Strings(_)
Strings(n) == IF n = 0 THEN {<<>>} ELSE LET S == Strings(n - 1) IN S \cup {Append(s, Alphabet[i]) : s \in {t \in S : Len(t) = n - 1}, i \in 1..Len(Alphabet)}
MaxLen == IF Thorough THEN 4 ELSE 3
UInputs == Strings(MaxLen)
UKw == VDict(<<"k">>, <<VInt(2)>>)
=============================================================================
