------------------------------- MODULE Expr -------------------------------
(***************************************************************************)
(* Context expressions (construct/expr.py): the AST that the overloads of  *)
(* this / obj_ / list_ / len_ ... build, its evaluation with Python's      *)
(* operator semantics, and the context (frame stack) it is evaluated in.   *)
(*                                                                         *)
(*   e ::= [x: "const", v] | [x: "this"] | [x: "obj"] | [x: "list"]        *)
(*       | [x: "item", o: e, n: STRING] | [x: "idx", o: e, i: Int]         *)
(*       | [x: "bin", op, l: e, r: e] | [x: "uni", op, a: e]               *)
(*       | [x: "func", f, a: e]                                            *)
(*                                                                         *)
(* Context: [fr: Seq(dict value), p: index of the _params frame,           *)
(*           mode: "parse" | "build" | "sizeof"].  fr[1] is the frame the  *)
(* public entry point creates; every scope-opening construct pushes one.   *)
(* A reference to a frame is the value [t: "frame", i].                    *)
(***************************************************************************)
EXTENDS Values

EOk(v)    == [ok |-> TRUE,  v |-> v,     err |-> ""]
EErr(cls) == [ok |-> FALSE, v |-> VNone, err |-> cls]
OutOfModel == "OutOfModel"

VFrame(i) == [t |-> "frame", i |-> i]
VRat(n, d) == [t |-> "rat", n |-> n, d |-> d]

RECURSIVE Gcd(_, _)
Gcd(a, b) == IF b = 0 THEN a ELSE Gcd(b, a % b)
MkRat(n, d) == \* d # 0
    LET s == IF d < 0 THEN -1 ELSE 1
        g == Gcd(Abs(n), Abs(d))
    IN VRat((s * n) \div g, (s * d) \div g)      \* note: \div on a negative numerator with exact division is exact

Lim == 32768                     \* operands of native multiplication stay below this
Small(i) == i > -Cap /\ i < Cap
NumOk(v) == (v.t = "int" /\ IntSmall(v)) \/ v.t = "bool"
Num(v)   == IF v.t = "bool" THEN (IF v.b THEN 1 ELSE 0) ELSE IntOf(v)
IsNumLike(v) == v.t \in {"int", "bool", "rat"}
RatOf(v) == IF v.t = "rat" THEN v ELSE VRat(Num(v), 1)

\* Python floor division and modulo on native integers, b # 0
FloorDiv(a, b) == IF b > 0 THEN (IF a >= 0 THEN a \div b ELSE -((-a + b - 1) \div b))
                  ELSE (IF a <= 0 THEN (-a) \div (-b) ELSE -((a + (-b) - 1) \div (-b)))
PyMod(a, b) == a - b * FloorDiv(a, b)

RECURSIVE PowNat(_, _)
PowNat(b, e) == IF e = 0 THEN 1 ELSE LET r == PowNat(b, e - 1) IN IF Abs(r) >= Lim \/ Abs(b) >= Lim THEN Cap ELSE b * r

\* 30-bit two's complement view for the bitwise operators
W == 30
ToU(x) == IF x < 0 THEN x + Pow2(W) ELSE x
FromU(u) == IF u >= Pow2(W - 1) THEN u - Pow2(W) ELSE u
BitOp(op, x, y) ==
    LET a == NatToBits(ToU(x), W)
        b == NatToBits(ToU(y), W)
        c == [i \in 1..W |-> CASE op = "&" -> IF a[i] = 1 /\ b[i] = 1 THEN 1 ELSE 0
                               [] op = "|" -> IF a[i] = 1 \/ b[i] = 1 THEN 1 ELSE 0
                               [] op = "^" -> IF a[i] # b[i] THEN 1 ELSE 0]
    IN FromU(BitsToNat(c))

CmpOps == {"<", "<=", ">", ">="}
RatCmp(op, a, b) == LET l == a.n * b.d  r == b.n * a.d IN
    CASE op = "<" -> l < r [] op = "<=" -> l <= r [] op = ">" -> l > r [] op = ">=" -> l >= r
\* lexicographic order on sequences of naturals (bytes, str)
RECURSIVE SeqLt(_, _, _)
SeqLt(a, b, i) == IF i > Len(a) THEN i <= Len(b) ELSE IF i > Len(b) THEN FALSE
                  ELSE IF a[i] < b[i] THEN TRUE ELSE IF a[i] > b[i] THEN FALSE ELSE SeqLt(a, b, i + 1)
SeqCmp(op, a, b) == CASE op = "<" -> SeqLt(a, b, 1) [] op = "<=" -> ~SeqLt(b, a, 1)
                      [] op = ">" -> SeqLt(b, a, 1) [] op = ">=" -> ~SeqLt(a, b, 1)

\* binary operator on two evaluated operands
BinOp(op, a, b) ==
    CASE op = "==" -> EOk(VBool(IF a.t = "rat" \/ b.t = "rat"
                                THEN (IsNumLike(a) /\ IsNumLike(b) /\ NumOk(IF a.t = "rat" THEN VInt(0) ELSE a) /\ NumOk(IF b.t = "rat" THEN VInt(0) ELSE b) /\ RatOf(a) = RatOf(b))
                                ELSE PyEq(a, b)))
      [] op = "!=" -> EOk(VBool(~(IF a.t = "rat" \/ b.t = "rat"
                                THEN (IsNumLike(a) /\ IsNumLike(b) /\ RatOf(a) = RatOf(b))
                                ELSE PyEq(a, b))))
      [] op \in CmpOps ->
            IF IsIntLike(a) /\ IsIntLike(b) THEN
                LET x == ToIntV(a)  y == ToIntV(b) IN
                EOk(VBool(CASE op = "<" -> IntLt(x, y) [] op = "<=" -> ~IntLt(y, x)
                            [] op = ">" -> IntLt(y, x) [] op = ">=" -> ~IntLt(x, y)))
            ELSE IF IsNumLike(a) /\ IsNumLike(b) THEN
                (IF (a.t # "rat" /\ ~NumOk(a)) \/ (b.t # "rat" /\ ~NumOk(b)) THEN EErr(OutOfModel)
                 ELSE EOk(VBool(RatCmp(op, RatOf(a), RatOf(b)))))
            ELSE IF a.t = "bytes" /\ b.t = "bytes" THEN EOk(VBool(SeqCmp(op, a.b, b.b)))
            ELSE IF a.t = "str" /\ b.t = "str" THEN EOk(VBool(SeqCmp(op, a.s, b.s)))
            ELSE IF a.t \in {"list", "dict", "frame", "opaque"} \/ b.t \in {"list", "dict", "frame", "opaque"} THEN EErr(OutOfModel)
            ELSE EErr("TypeError")
      [] op = "+" /\ a.t = "bytes" /\ b.t = "bytes" -> EOk(VBytes(a.b \o b.b))
      [] op = "+" /\ a.t = "str" /\ b.t = "str" -> EOk(VStr(a.s \o b.s))
      [] op = "+" /\ a.t = "list" /\ b.t = "list" -> EOk(VList(a.xs \o b.xs))
      [] op = "*" /\ a.t \in {"bytes", "str", "list"} /\ IsIntLike(b) ->
            IF ~NumOk(b) \/ Num(b) > 64 THEN EErr(OutOfModel)
            ELSE LET n == Max(Num(b), 0) IN
                 EOk(CASE a.t = "bytes" -> VBytes(Flatten(Rep(a.b, n)))
                       [] a.t = "str" -> VStr(Flatten(Rep(a.s, n)))
                       [] a.t = "list" -> VList(Flatten(Rep(a.xs, n))))
      [] op = "*" /\ b.t \in {"bytes", "str", "list"} /\ IsIntLike(a) ->
            IF ~NumOk(a) \/ Num(a) > 64 THEN EErr(OutOfModel)
            ELSE LET n == Max(Num(a), 0) IN
                 EOk(CASE b.t = "bytes" -> VBytes(Flatten(Rep(b.b, n)))
                       [] b.t = "str" -> VStr(Flatten(Rep(b.s, n)))
                       [] b.t = "list" -> VList(Flatten(Rep(b.xs, n))))
      [] op = "%" /\ a.t \in {"bytes", "str"} -> EErr(OutOfModel)      \* printf-style formatting
      [] op \in {"&", "|", "^"} /\ a.t = "bool" /\ b.t = "bool" ->
            EOk(VBool(CASE op = "&" -> a.b /\ b.b [] op = "|" -> a.b \/ b.b [] op = "^" -> a.b # b.b))
      [] IsIntLike(a) /\ IsIntLike(b) ->
            IF ~NumOk(a) \/ ~NumOk(b) THEN EErr(OutOfModel)
            ELSE LET x == Num(a)  y == Num(b) IN
            CASE op = "+" -> EOk(VInt(x + y))
              [] op = "-" -> EOk(VInt(x - y))
              [] op = "*" -> IF Abs(x) >= Lim \/ Abs(y) >= Lim THEN EErr(OutOfModel) ELSE EOk(VInt(x * y))
              [] op = "//" -> IF y = 0 THEN EErr("ZeroDivisionError") ELSE EOk(VInt(FloorDiv(x, y)))
              [] op = "%" -> IF y = 0 THEN EErr("ZeroDivisionError") ELSE EOk(VInt(PyMod(x, y)))
              [] op = "/" -> IF y = 0 THEN EErr("ZeroDivisionError") ELSE EOk(MkRat(x, y))
              [] op = "**" -> IF y >= 0 THEN (IF y > 30 /\ Abs(x) > 1 THEN EErr(OutOfModel)
                                              ELSE LET r == IF Abs(x) <= 1 THEN (IF x = 0 THEN (IF y = 0 THEN 1 ELSE 0)
                                                                               ELSE IF x = 1 THEN 1 ELSE (IF y % 2 = 0 THEN 1 ELSE -1))
                                                            ELSE PowNat(x, y)
                                                   IN IF Abs(r) >= Cap THEN EErr(OutOfModel) ELSE EOk(VInt(r)))
                              ELSE IF x = 0 THEN EErr("ZeroDivisionError")
                              ELSE IF -y > 14 /\ Abs(x) > 1 THEN EErr(OutOfModel)
                              ELSE LET r == IF Abs(x) = 1 THEN (IF x = 1 \/ (-y) % 2 = 0 THEN 1 ELSE -1) ELSE PowNat(x, -y)
                                   IN IF Abs(r) >= Cap THEN EErr(OutOfModel) ELSE EOk(MkRat(1, r))
              [] op = "<<" -> IF y < 0 THEN EErr("ValueError")
                              ELSE IF y > 29 THEN (IF x = 0 THEN EOk(VInt(0)) ELSE EErr(OutOfModel))
                              ELSE IF Abs(x) >= Pow2(30 - y) THEN EErr(OutOfModel) ELSE EOk(VInt(x * Pow2(y)))
              [] op = ">>" -> IF y < 0 THEN EErr("ValueError")
                              ELSE IF y > 29 THEN EOk(VInt(IF x < 0 THEN -1 ELSE 0))
                              ELSE EOk(VInt(FloorDiv(x, Pow2(y))))
              [] op \in {"&", "|", "^"} -> IF Abs(x) >= Pow2(W - 1) \/ Abs(y) >= Pow2(W - 1) THEN EErr(OutOfModel)
                                           ELSE EOk(VInt(BitOp(op, x, y)))
              [] OTHER -> EErr(OutOfModel)
      [] IsNumLike(a) /\ IsNumLike(b) ->       \* at least one rational (a Python float)
            IF (a.t # "rat" /\ ~NumOk(a)) \/ (b.t # "rat" /\ ~NumOk(b)) THEN EErr(OutOfModel)
            ELSE LET p == RatOf(a)  q == RatOf(b) IN
            IF Abs(p.n) >= Lim \/ Abs(p.d) >= Lim \/ Abs(q.n) >= Lim \/ Abs(q.d) >= Lim THEN EErr(OutOfModel)
            ELSE CASE op = "+" -> EOk(MkRat(p.n * q.d + q.n * p.d, p.d * q.d))
                   [] op = "-" -> EOk(MkRat(p.n * q.d - q.n * p.d, p.d * q.d))
                   [] op = "*" -> EOk(MkRat(p.n * q.n, p.d * q.d))
                   [] op = "/" -> IF q.n = 0 THEN EErr("ZeroDivisionError") ELSE EOk(MkRat(p.n * q.d, p.d * q.n))
                   [] op \in {"<<", ">>", "&", "|", "^"} -> EErr("TypeError")
                   [] OTHER -> EErr(OutOfModel)      \* // % ** on floats
      [] op \in {"+", "-", "*", "/", "//", "%", "**", "<<", ">>", "&", "|", "^"} ->
            IF a.t \in {"frame", "opaque", "float"} \/ b.t \in {"frame", "opaque", "float"} THEN EErr(OutOfModel)
            ELSE IF op = "%" /\ a.t \in {"bytes", "str"} THEN EErr(OutOfModel)
            ELSE EErr("TypeError")
      [] OTHER -> EErr(OutOfModel)

UniOp(op, a) ==
    CASE op = "not" -> IF a.t \in {"frame", "opaque", "rat"} THEN (IF a.t = "rat" THEN EOk(VBool(a.n = 0)) ELSE EErr(OutOfModel))
                       ELSE EOk(VBool(~Truthy(a)))
      [] op = "-" -> IF IsIntLike(a) THEN LET v == ToIntV(a) IN EOk(VIntM(~v.neg, v.mag))
                     ELSE IF a.t = "rat" THEN EOk(VRat(-a.n, a.d))
                     ELSE IF a.t \in {"frame", "opaque", "float"} THEN EErr(OutOfModel) ELSE EErr("TypeError")
      [] op = "+" -> IF IsIntLike(a) THEN EOk(ToIntV(a))
                     ELSE IF a.t = "rat" THEN EOk(a)
                     ELSE IF a.t \in {"frame", "opaque", "float"} THEN EErr(OutOfModel) ELSE EErr("TypeError")
      [] OTHER -> EErr(OutOfModel)

\* len / sum / min / max / abs on evaluated operands
RECURSIVE SumInts(_, _, _)
SumInts(xs, i, acc) == IF i > Len(xs) THEN acc ELSE SumInts(xs, i + 1, acc + Num(xs[i]))
FuncOp(f, a) ==
    CASE f = "len" -> (CASE a.t = "bytes" -> EOk(VInt(Len(a.b))) [] a.t = "str" -> EOk(VInt(Len(a.s)))
                         [] a.t = "list" -> EOk(VInt(Len(a.xs))) [] a.t = "dict" -> EOk(VInt(Len(a.k)))
                         [] a.t \in {"frame", "opaque"} -> EErr(OutOfModel)
                         [] OTHER -> EErr("TypeError"))
      [] f = "abs" -> IF IsIntLike(a) THEN EOk(VIntM(FALSE, ToIntV(a).mag))
                      ELSE IF a.t = "rat" THEN EOk(VRat(Abs(a.n), a.d))
                      ELSE IF a.t \in {"frame", "opaque", "float"} THEN EErr(OutOfModel) ELSE EErr("TypeError")
      [] f = "sum" -> IF a.t = "list" /\ (\A i \in 1..Len(a.xs) : IsIntLike(a.xs[i]) /\ NumOk(a.xs[i]))
                      THEN EOk(VInt(SumInts(a.xs, 1, 0)))
                      ELSE IF a.t = "bytes" THEN EOk(VInt(SumInts([i \in 1..Len(a.b) |-> VInt(a.b[i])], 1, 0)))
                      ELSE IF a.t \in {"list", "frame", "opaque"} THEN EErr(OutOfModel) ELSE EErr("TypeError")
      [] f \in {"min", "max"} ->
            IF a.t = "list" /\ a.xs # <<>> /\ (\A i \in 1..Len(a.xs) : IsIntLike(a.xs[i]) /\ NumOk(a.xs[i]))
            THEN LET S == {Num(a.xs[i]) : i \in 1..Len(a.xs)} IN
                 EOk(VInt(IF f = "min" THEN CHOOSE m \in S : \A n \in S : m <= n ELSE CHOOSE m \in S : \A n \in S : m >= n))
            ELSE IF a.t = "list" /\ a.xs = <<>> THEN EErr("ValueError")
            ELSE IF a.t \in {"list", "frame", "opaque", "bytes", "str", "dict"} THEN EErr(OutOfModel) ELSE EErr("TypeError")
      [] OTHER -> EErr(OutOfModel)

---------------------------------------------------------------------------
\* context access
ModeFlag(ctx, n) == VBool((n = "_parsing" /\ ctx.mode = "parse") \/ (n = "_building" /\ ctx.mode = "build")
                          \/ (n = "_sizing" /\ ctx.mode = "sizeof"))
FrameGet(ctx, i, n) ==
    LET f == ctx.fr[i] IN
    IF n = "_" /\ i > 1 THEN EOk(VFrame(i - 1))
    ELSE IF n = "_params" THEN EOk(VFrame(ctx.p))
    ELSE IF n = "_root" /\ i >= 2 THEN EOk(VFrame(2))
    ELSE IF n \in {"_parsing", "_building", "_sizing"} THEN EOk(ModeFlag(ctx, n))
    ELSE IF n \in {"_io", "_subcons"} THEN EErr(OutOfModel)
    ELSE IF DHas(f, n) THEN EOk(DGet(f, n)) ELSE EErr("KeyError")

GetItem(ctx, o, n) ==
    CASE o.t = "frame" -> FrameGet(ctx, o.i, n)
      [] o.t = "dict"  -> IF DHas(o, n) THEN EOk(DGet(o, n)) ELSE EErr("KeyError")
      [] o.t = "opaque" -> EErr(OutOfModel)
      [] OTHER -> EErr("TypeError")
GetIdx(o, i) ==
    CASE o.t = "list"  -> LET n == Len(o.xs)  j == IF i < 0 THEN n + i + 1 ELSE i + 1 IN
                          IF j >= 1 /\ j <= n THEN EOk(o.xs[j]) ELSE EErr("IndexError")
      [] o.t = "bytes" -> LET n == Len(o.b)  j == IF i < 0 THEN n + i + 1 ELSE i + 1 IN
                          IF j >= 1 /\ j <= n THEN EOk(VInt(o.b[j])) ELSE EErr("IndexError")
      [] o.t = "dict"  -> EErr("KeyError")
      [] o.t \in {"frame", "opaque"} -> EErr(OutOfModel)
      [] OTHER -> EErr("TypeError")

\* Eval(e, root, lst, ctx): `this`/`obj_` denote root, `list_` denotes lst
RECURSIVE Eval(_, _, _, _)
Eval(e, root, lst, ctx) ==
    CASE e.x = "const" -> EOk(e.v)
      [] e.x \in {"this", "obj"} -> EOk(root)
      [] e.x = "list" -> EOk(lst)
      [] e.x = "item" -> LET o == Eval(e.o, root, lst, ctx) IN IF ~o.ok THEN o ELSE GetItem(ctx, o.v, e.n)
      [] e.x = "idx"  -> LET o == Eval(e.o, root, lst, ctx) IN IF ~o.ok THEN o ELSE GetIdx(o.v, e.i)
      [] e.x = "bin"  -> LET l == Eval(e.l, root, lst, ctx) IN IF ~l.ok THEN l ELSE
                         LET r == Eval(e.r, root, lst, ctx) IN IF ~r.ok THEN r ELSE BinOp(e.op, l.v, r.v)
      [] e.x = "uni"  -> LET a == Eval(e.a, root, lst, ctx) IN IF ~a.ok THEN a ELSE UniOp(e.op, a.v)
      [] e.x = "func" -> LET a == Eval(e.a, root, lst, ctx) IN IF ~a.ok THEN a ELSE FuncOp(e.f, a.v)
      [] OTHER -> EErr(OutOfModel)

\* evaluation of a construct parameter in a context
EvalCtx(e, ctx) == Eval(e, VFrame(Len(ctx.fr)), VNone, ctx)
=============================================================================
