----------------------------- MODULE ExprRender -----------------------------
(***************************************************************************)
(* Rendering of context expressions (the __repr__ rules of construct/expr.py) *)
(* as token sequences and as text, and `Reparse`: a precedence parser for   *)
(* the part of Python's expression grammar the renderings use.              *)
(*   ReprFaithful(e) == Reparse(Render(e)) denotes the same function as e   *)
(* Python's precedence, loosest first: not | comparisons | "|" | "^" | "&"  *)
(* | shifts | + - | * / // % | unary + - | ** (right-assoc.; a unary        *)
(* operator may start its right operand).  `not` may only start an operand  *)
(* where a not_test is allowed: never as the operand of a tighter operator. *)
(***************************************************************************)
EXTENDS Expr

TLp == [t |-> "lp"]
TRp == [t |-> "rp"]
TOp(s) == [t |-> "op", s |-> s]
TUop(s) == [t |-> "uop", s |-> s]
TAtom(e) == [t |-> "atom", e |-> e]
TFunc(f) == [t |-> "func", f |-> f]

IsPathLike(e) == e.x \in {"this", "obj", "list", "item", "idx", "const"}

\* UniParens = TRUE: the rule of the library (a unary operand of another operator is parenthesised);
\* UniParens = FALSE: the rule the pinned snapshot had (kept as a negative control for the design-level check)
\* a negative numeric constant prints with a leading minus sign: to Python's parser that is a unary minus
NegConst(e) == e.x = "const" /\ e.v.t = "int" /\ e.v.neg
RECURSIVE Render(_, _)
Operand(e, up) == IF (e.x = "uni" \/ NegConst(e)) /\ up THEN <<TLp>> \o Render(e, up) \o <<TRp>> ELSE Render(e, up)
Render(e, up) ==
    CASE NegConst(e) -> <<TUop("-"), TAtom([e EXCEPT !.v = VIntM(FALSE, e.v.mag)])>>
      [] IsPathLike(e) -> <<TAtom(e)>>
      [] e.x = "func" -> <<TFunc(e.f), TLp>> \o Render(e.a, up) \o <<TRp>>
      [] e.x = "bin"  -> <<TLp>> \o Operand(e.l, up) \o <<TOp(e.op)>> \o Operand(e.r, up) \o <<TRp>>
      [] e.x = "uni"  -> <<TUop(e.op)>> \o Operand(e.a, up)

\* the same as text; constants carry Python's own repr in field rp
RECURSIVE Text(_), PathText(_)
PathText(e) == CASE e.x = "this" -> "this" [] e.x = "obj" -> "obj_" [] e.x = "list" -> "list_"
                 [] e.x = "item" -> PathText(e.o) \o "['" \o e.n \o "']"
                 [] e.x = "idx" -> PathText(e.o) \o "[" \o e.rp \o "]"
                 [] e.x = "const" -> e.rp
OperandText(e) == IF e.x = "uni" \/ (e.x = "const" /\ e.v.t = "int" /\ e.v.neg) THEN "(" \o Text(e) \o ")" ELSE Text(e)
Text(e) ==
    CASE IsPathLike(e) -> PathText(e)
      [] e.x = "func" -> e.f \o "_(" \o Text(e.a) \o ")"
      [] e.x = "bin"  -> "(" \o OperandText(e.l) \o " " \o e.op \o " " \o OperandText(e.r) \o ")"
      [] e.x = "uni"  -> e.op \o " " \o OperandText(e.a)

---------------------------------------------------------------------------
Prec(op) == CASE op \in {"<", "<=", ">", ">=", "==", "!=", "in"} -> 4
              [] op = "|" -> 5 [] op = "^" -> 6 [] op = "&" -> 7 [] op \in {"<<", ">>"} -> 8
              [] op \in {"+", "-"} -> 9 [] op \in {"*", "/", "//", "%"} -> 10 [] op = "**" -> 12
PrecNot == 3
PrecUnary == 11
PErr(i) == [ok |-> FALSE, e |-> [x |-> "this"], i |-> i]
POk(e, i) == [ok |-> TRUE, e |-> e, i |-> i]

RECURSIVE ParseExpr(_, _, _), ParsePrefix(_, _, _), Climb(_, _, _, _)
\* an operand at binding power `minp`
ParsePrefix(toks, i, minp) ==
    IF i > Len(toks) THEN PErr(i)
    ELSE LET tk == toks[i] IN
    CASE tk.t = "atom" -> POk(tk.e, i + 1)
      [] tk.t = "lp" -> LET r == ParseExpr(toks, i + 1, 0) IN
                        IF ~r.ok \/ r.i > Len(toks) \/ toks[r.i].t # "rp" THEN PErr(i) ELSE POk(r.e, r.i + 1)
      [] tk.t = "func" -> IF i + 1 > Len(toks) \/ toks[i + 1].t # "lp" THEN PErr(i)
                          ELSE LET r == ParseExpr(toks, i + 2, 0) IN
                               IF ~r.ok \/ r.i > Len(toks) \/ toks[r.i].t # "rp" THEN PErr(i)
                               ELSE POk([x |-> "func", f |-> tk.f, a |-> r.e], r.i + 1)
      [] tk.t = "uop" /\ tk.s = "not" ->
            IF minp > PrecNot THEN PErr(i)              \* SyntaxError: `a + not b`
            ELSE LET r == ParseExpr(toks, i + 1, PrecNot) IN
                 IF ~r.ok THEN r ELSE POk([x |-> "uni", op |-> "not", a |-> r.e], r.i)
      [] tk.t = "uop" ->
            LET r == ParseExpr(toks, i + 1, PrecUnary) IN
            IF ~r.ok THEN r ELSE POk([x |-> "uni", op |-> tk.s, a |-> r.e], r.i)
      [] OTHER -> PErr(i)
\* extend `left` with binary operators binding at least as tightly as minp
Climb(toks, left, i, minp) ==
    IF i > Len(toks) \/ toks[i].t # "op" \/ Prec(toks[i].s) < minp THEN POk(left, i)
    ELSE LET op == toks[i].s
             p == Prec(op)
             r == ParseExpr(toks, i + 1, IF op = "**" THEN p ELSE p + 1)       \* ** is right-associative
         IN IF ~r.ok THEN r
            ELSE Climb(toks, [x |-> "bin", op |-> op, l |-> left, r |-> r.e], r.i, minp)
ParseExpr(toks, i, minp) ==
    LET l == ParsePrefix(toks, i, minp) IN
    IF ~l.ok THEN l ELSE Climb(toks, l.e, l.i, minp)
\* a unary minus binds looser than ** on its right:  - a ** 2  is  -(a ** 2); handled by PrecUnary < Prec("**")
Reparse(toks) == LET r == ParseExpr(toks, 1, 0) IN IF r.ok /\ r.i = Len(toks) + 1 THEN r ELSE PErr(0)

\* same function: equal results (values or exception classes) in every environment of Envs
SameIn(e1, e2, root) ==
    LET a == Eval(e1, root, VNone, [fr |-> <<VEmptyDict>>, p |-> 1, mode |-> "parse"])
        b == Eval(e2, root, VNone, [fr |-> <<VEmptyDict>>, p |-> 1, mode |-> "parse"])
    IN (a.err = OutOfModel \/ b.err = OutOfModel) \/ (a.ok = b.ok /\ a.err = b.err /\ (a.ok => a.v = b.v))
ReprFaithful(e, up, Envs) ==
    LET r == Reparse(Render(e, up)) IN r.ok /\ \A root \in Envs : SameIn(e, r.e, root)
=============================================================================
