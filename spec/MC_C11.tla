------------------------------- MODULE MC_C11 -------------------------------
(***************************************************************************)
(* Design level for C11: for all expression trees up to the depth bound     *)
(* over the full operator table, with leaves this.a, this["b"], this._.c,   *)
(* obj_-style roots and constants on either side, the rendering re-parsed   *)
(* under Python's precedence denotes the same function in every small       *)
(* integer environment.  Control: with the rule of the pinned snapshot      *)
(* (unary operands not parenthesised) TLC must find a counter-example.      *)
(***************************************************************************)
EXTENDS ExprRender, IOUtils

Thorough == "MC_TIER" \in DOMAIN IOEnv /\ IOEnv.MC_TIER = "thorough"
Control == "MC_CONTROL" \in DOMAIN IOEnv /\ IOEnv.MC_CONTROL = "1"
BinOps == {"+", "-", "*", "/", "//", "%", "**", "^", "<<", ">>", "&", "|", "<", "<=", ">", ">=", "==", "!="}
UniOps == {"-", "+", "not"}
PA == [x |-> "item", o |-> [x |-> "this"], n |-> "a"]
PB == [x |-> "item", o |-> [x |-> "this"], n |-> "b"]
PC == [x |-> "item", o |-> [x |-> "item", o |-> [x |-> "this"], n |-> "_"], n |-> "c"]
Consts == {[x |-> "const", v |-> VInt(2)], [x |-> "const", v |-> VInt(-1)], [x |-> "const", v |-> VBool(TRUE)]}
Leaves == {PA, PB, PC} \cup Consts
D1 == Leaves \cup [x : {"uni"}, op : UniOps, a : Leaves]
        \cup {[x |-> "bin", op |-> o, l |-> l, r |-> r] : o \in BinOps, l \in Leaves, r \in Leaves}
        \cup {[x |-> "func", f |-> "abs", a |-> l] : l \in {PA, PC}}
\* depth 2: a depth-1 tree on one side (or under a unary / abs_), a leaf on the other
SmallLeaves == {PA, [x |-> "const", v |-> VInt(2)]}
D2 == [x : {"uni"}, op : UniOps, a : D1]
        \cup {[x |-> "bin", op |-> o, l |-> l, r |-> r] : o \in BinOps, l \in D1, r \in SmallLeaves}
        \cup {[x |-> "bin", op |-> o, l |-> l, r |-> r] : o \in BinOps, l \in SmallLeaves, r \in D1}
        \cup {[x |-> "func", f |-> "abs", a |-> l] : l \in D1}
\* thorough: both sides depth 1 for the arithmetic operators
D2b == {[x |-> "bin", op |-> o, l |-> l, r |-> r] : o \in {"+", "*", "**", "-", "<", "=="}, l \in [x : {"uni"}, op : UniOps, a : {PA, PB}], r \in D1}
Trees == IF Control THEN D1 ELSE IF Thorough THEN D1 \cup D2 \cup D2b ELSE D1 \cup D2
Vals == IF Thorough THEN -3..3 ELSE {-2, 0, 1, 3}
Envs == {VDict(<<"a", "b", "_">>, <<VInt(a), VInt(b), VDict(<<"c">>, <<VInt(c)>>)>>) : a \in Vals, b \in {-1, 2}, c \in {0, 3}}

VARIABLE st
\* 16 initial states partition the trees by their top operator so that all workers evaluate
OpSeq == <<"+", "-", "*", "/", "//", "%", "**", "^", "<<", ">>", "&", "|", "<", "<=", ">", ">=", "==", "!=">>
Part(e) == IF e.x = "bin" THEN IndexOf(OpSeq, e.op) % 16 ELSE IF e.x = "uni" THEN 3 ELSE 11
Init == st \in [t : {"init"}, c : 0..15, ok : {TRUE}]
Next == st.t = "init" /\ \E e \in Trees : Part(e) = st.c /\ st' = [t |-> "tree", e |-> e, ok |-> ReprFaithful(e, ~Control, Envs)]
Faithful == st.ok
=============================================================================
