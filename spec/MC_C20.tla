------------------------------- MODULE MC_C20 -------------------------------
(***************************************************************************)
(* Design level for C20: all operation histories up to the bound on heaps   *)
(* of at most 5 objects with public, private and method-shadowing keys and  *)
(* nested containers / lists: equality is an equivalence relation that      *)
(* ignores order and private entries and agrees with dict equality on the   *)
(* rest; a shallow copy is independent at top level, a deep copy / pickle   *)
(* round trip at every depth; hexundump inverts hexdump.                    *)
(***************************************************************************)
EXTENDS Containers, Hex, IOUtils, TLC
Thorough == "MC_TIER" \in DOMAIN IOEnv /\ IOEnv.MC_TIER = "thorough"
MaxOps == IF Thorough THEN 5 ELSE 3
MaxObjs == 5
Keys == {"a", "_p", "keys"}
Scalars == {VInt(1), VInt(2)}
VARIABLES h, n, lastcopy      \* heap, number of operations, [src, dst, deep] of the last copy
vars == <<h, n, lastcopy>>
Objs == 1..Len(h)
Cs == {o \in Objs : h[o].cls = "C"}
Vals(o) == Scalars \cup {VRef(p) : p \in {q \in Objs : q < o}}      \* references only to older objects: no cycles
NoCopy == [src |-> 0, dst |-> 0, deep |-> FALSE]
Init == h = <<NewC(<<"a">>, <<VInt(1)>>), NewL(<<VInt(2)>>), NewC(<<"a", "_p">>, <<VRef(2), VInt(1)>>)>> /\ n = 0 /\ lastcopy = NoCopy
Op(hh) == /\ n < MaxOps /\ h' = hh /\ n' = n + 1
Next == \/ \E o \in Cs : \E k \in Keys, v \in Vals(o) : Op(SetItem(h, o, k, v)) /\ lastcopy' = NoCopy
        \/ \E o \in Cs, k \in Keys : IndexOf(h[o].k, k) # 0 /\ Op(DelItem(h, o, k)) /\ lastcopy' = NoCopy
        \/ \E o \in Cs : Len(h) < MaxObjs /\ Op(Copy(h, o)) /\ lastcopy' = [src |-> o, dst |-> Len(h) + 1, deep |-> FALSE]
        \/ \E o \in Cs : /\ Len(h) + Cardinality(Reach(h, {o}, {})) <= MaxObjs + 1 /\ Op(DeepCopy(h, o).h)
                           /\ lastcopy' = [src |-> o, dst |-> DeepCopy(h, o).o, deep |-> TRUE]
        \/ \E o \in Objs : h[o].cls = "L" /\ Len(h[o].v) < 2 /\ \E v \in Scalars : Op(AppendL(h, o, v)) /\ lastcopy' = NoCopy
Spec == Init /\ [][Next]_vars

EqReflexive == \A o \in Objs : ObjEq(h, o, o)
EqSymmetric == \A a, b \in Objs : ObjEq(h, a, b) = ObjEq(h, b, a)
EqTransitive == \A a, b, c \in Objs : ObjEq(h, a, b) /\ ObjEq(h, b, c) => ObjEq(h, a, c)
\* reordering the entries and changing / adding / removing private entries never changes equality
EqIgnoresOrderAndPrivate == \A o \in Cs :
    LET r == [h EXCEPT ![o].k = Rev(@), ![o].v = Rev(@)]
        p == SetItem(h, o, "_q", VInt(7))
    IN ObjEq(Append(h, r[o]), o, Len(h) + 1) /\ ObjEq(Append(h, p[o]), o, Len(h) + 1)
\* a copy is equal to its source when it is made
CopyEqual == lastcopy.dst # 0 => ObjEq(h, lastcopy.src, lastcopy.dst)
\* deep copy / pickle: nothing reachable from the copy is reachable from the source
DeepDisjoint == (lastcopy.dst # 0 /\ lastcopy.deep) => Reach(h, {lastcopy.src}, {}) \cap Reach(h, {lastcopy.dst}, {}) = {}
\* a top-level mutation of one side of a copy does not show on the other side
CopyIndependent == [][\A o \in Cs : (lastcopy.dst # 0 /\ o \in {lastcopy.src, lastcopy.dst} /\ h'[o] # h[o] /\ Len(h') = Len(h))
                        => LET other == IF o = lastcopy.src THEN lastcopy.dst ELSE lastcopy.src IN h'[other] = h[other]]_vars
HexInverts == n > 0 \/ \A d \in {<<>>, <<0>>, <<65, 66>>, <<255, 32, 127, 10, 48>>, <<1, 2, 3, 4, 5, 6, 7, 8, 9, 10, 11, 12, 13, 14, 15, 16, 17>>} :
                 \A m \in 1..18 : HexUndump(HexDump(d, m), m) = d
=============================================================================
