------------------------------- MODULE MC_CAM -------------------------------
(***************************************************************************)
(* The Construct Abstract Machine driven by Sem (design level, TLC alone).  *)
(*                                                                         *)
(* One behaviour is a session on one program p of the bounded universe and  *)
(* one input d:                                                             *)
(*      parse(d)  ;  build(v) of the value parsed  ;  parse of the bytes built *)
(* Each call is replayed one construct-boundary event per state by the same *)
(* pushdown machine that replays recordings of the implementation (Machine),*)
(* so the machine-level clauses (C09 look-ahead / alternatives, C14 RawCopy *)
(* extents, C06 root) are checked at every Leave step of every behaviour    *)
(* the specification allows.  When a call returns, the session-level        *)
(* theorems are evaluated on the model's own call records with the same     *)
(* predicates (Props) that judge recorded sessions:                         *)
(*   Z-exact    sizeof answered n  =>  the call advanced by n       (C05)   *)
(*   Z-total    sizeof answers or says SizeofError                  (C05)   *)
(*   Closed     a parse fails only with a ConstructError            (C06)   *)
(*   Prefix     no value from a strict prefix of a canonical encoding (C06) *)
(*   Faults     a failing root stream surfaces as StreamError (MC_FAULTS) (C06)*)
(*   Rebuild    what was parsed can be built again (explicit fragment) (C02)*)
(*   Normal     ... and parses back to the same value              (C01/C02) *)
(*   Tight      ... using all of the bytes built                           *)
(* The explicit fragment (Explicit) is syntactic: it is what the model-based*)
(* premises of C01Sym / C02Canon are shown here to contain.                 *)
(*                                                                         *)
(* Every session is emitted (PrintT) with the results the specification     *)
(* prescribes; the harness steps the same sessions through the real library *)
(* (spec -> code) and validates what it records against Sem again.          *)
(***************************************************************************)
EXTENDS Machine, Universe, Json, IOUtils, TLCExt, TLC

VARIABLES pi,       \* program index in UProgs
          data,     \* the session's input
          st,       \* where the session's calls start in their stream (filler bytes before)
          phase,    \* "start", "parse", "build", "reparse", "done"
          cur,      \* the call record being replayed (events and result as Sem prescribes them)
          log       \* results of the calls finished so far (emitted at the end)
vars == <<pi, data, st, phase, cur, log, pc, stack, fails>>

Control == "MC_CONTROL" \in DOMAIN IOEnv /\ IOEnv.MC_CONTROL = "1"
Survey == "MC_SURVEY" \in DOMAIN IOEnv /\ IOEnv.MC_SURVEY = "1"      \* list every failing session instead of stopping at the first
Emit == "MC_EMIT" \in DOMAIN IOEnv /\ IOEnv.MC_EMIT = "1"

NP == Len(UProgs)
Part == IF "MC_PART" \in DOMAIN IOEnv THEN IOEnv.MC_PART ELSE "0/1"      \* "i/n": slice i of n of the sessions
PartI == CHOOSE i \in 0..63 : \E n \in 1..64 : Part = ToString(i) \o "/" \o ToString(n)
PartN == CHOOSE n \in 1..64 : Part = ToString(PartI) \o "/" \o ToString(n)
\* a slice takes every program with a share of its inputs
RECURSIVE HashSeq(_, _)
HashSeq(d, j) == IF j > Len(d) THEN Len(d) ELSE d[j] * (j + 1) + 3 * HashSeq(d, j + 1)
InSlice(i, d) == (HashSeq(d, 1) + i) % PartN = PartI
\* longer inputs for the single constructs and the context-dependent members, shorter ones for the nests
InputsFor(i) == IF i <= Len(S1) + Len(S4) /\ FocusKinds = {} THEN UInputs ELSE Strings(3)

NoCall == [op |-> "none", events |-> <<>>]
CaseRec(op, d, arg) == [op |-> op, data |-> d, start |-> 0, kw |-> UKw, flt |-> NoFlt, arg |-> arg, events |-> <<>>, model |-> TRUE,
                        res |-> [ok |-> TRUE, err |-> "", p |-> 0, v |-> VNone, path |-> <<>>]]
\* position-sensitive parts of the universe are also run behind filler bytes: offsets stay absolute
Starts == IF FocusKinds = {} THEN {0} ELSE {0, 2}
Filler(n) == [i \in 1..n |-> 238]
CallS(op, d, arg, flt, start) == LET cs == [CaseRec(op, d, arg) EXCEPT !.flt = flt, !.start = start]
                              r == Model(UProgs[pi], cs)
                          IN [cs EXCEPT !.events = r.ev, !.res = ModelRes(cs, r) @@ [path |-> <<>>, oom |-> IsOOM(r)]] @@ [ops |-> r.s.ops]
CallF(op, d, arg, flt) == CallS(op, d, arg, flt, 0)
Call(op, d, arg) == CallS(op, d, arg, NoFlt, 0)

Init == /\ pi \in 1..NP /\ data \in {d \in InputsFor(pi) : InSlice(pi, d)} /\ st \in Starts /\ phase = "start" /\ cur = NoCall /\ log = <<>>
        /\ pc = 0 /\ stack = <<>> /\ fails = <<>>

Start == /\ phase = "start"
         /\ cur' = CallS("parse", Filler(st) \o data, VNone, NoFlt, st) /\ phase' = "parse"
         /\ UNCHANGED <<pi, data, st, log, pc, stack, fails>>

Active == phase \in {"parse", "build", "reparse"} /\ ~cur.res.oom
Enter == Active /\ EnterOn(cur) /\ UNCHANGED <<pi, data, st, phase, cur, log>>
Leave == Active /\ LeaveOn(cur) /\ UNCHANGED <<pi, data, st, phase, cur, log>>

---------------------------------------------------------------------------
\* the explicit fragment for the round-trip theorems
\* alternatives and optional parts whose encodings overlap make parsing non-injective; Tell / Computed / Peek values are not inputs
AmbiguousKinds == {"Select", "Optional", "Union", "Peek", "Pointer", "Seek", "StopIf", "Error", "NullStripped", "Default", "Rebuild", "Tell"}
RECURSIVE NoEmptyElements(_), TermSafe(_), PadSafe(_)
\* a repeater over a member that can consume nothing cannot be normalised (and may diverge)
NoEmptyElements(n) == LET m == Core(n)  ks == Kids(n) IN
    /\ (m.k \in {"GreedyRange", "RepeatUntil"} => LET z == SizeofCall(m.sub, UKw) IN ~(z.ok /\ z.v = 0))
    /\ \A i \in 1..Len(ks) : NoEmptyElements(ks[i])
\* a terminator delimits only if the member's encoding cannot contain it: the plain form (terminator dropped, consumed, required)
\* over a codec that reproduces the bytes it parsed
InjLeaf == {"FormatField", "BytesInteger", "Bytes", "GreedyBytes", "VarInt", "ZigZag", "Flag", "Const", "Pass"}
TermSafe(n) == LET m == Core(n)  ks == Kids(n) IN
    /\ (m.k = "NullTerminated" => ~m.include /\ m.consume /\ m.require /\ Core(m.sub).k \in InjLeaf)
    /\ \A i \in 1..Len(ks) : TermSafe(ks[i])
\* padding after a greedy member is taken for content when it is parsed back
PadSafe(n) == LET m == Core(n)  ks == Kids(n) IN
    /\ (m.k \in {"FixedSized", "Padded", "Aligned"} /\ Greedy(m.sub) => Core(m.sub).k = "GreedyBytes")
    /\ \A i \in 1..Len(ks) : PadSafe(ks[i])
Explicit(n) == Sequential(n) /\ WellFormed(n, TRUE) /\ ~AnyNode(n, AmbiguousKinds) /\ NoEmptyElements(n) /\ TermSafe(n) /\ PadSafe(n)

F(clause) == <<[clause |-> clause, at |-> 0, node |-> phase]>>
\* the model's sizeof call record for this program
ZCall == Call("sizeof", <<>>, VNone)
RECURSIVE PrefixFails(_, _, _)
PrefixFails(n, b, j) ==       \* every strict prefix of the canonical encoding b.res.v.b, from length j down to 0
    IF j < 0 THEN TRUE
    ELSE LET p == Call("parse", SubSeq(b.res.v.b, 1, j), VNone) IN
         (p.res.oom \/ C06Prefix(n, b, p) # "fail") /\ PrefixFails(n, b, j - 1)

\* C06, stream faults: whatever operation of the root stream fails (raises / transfers short / cannot seek / cannot tell), the call
\* fails with StreamError or -- where the fault did not bite, or a construct may recover -- as C06Fault allows
Faults == "MC_FAULTS" \in DOMAIN IOEnv /\ IOEnv.MC_FAULTS = "1"
FaultOk(n, clean) ==
    \A mode \in {"raise", "short", "noseek", "notell"} :
        \A k \in (IF mode \in {"raise", "short"} THEN 1..Min(clean.ops, 10) ELSE {0}) :
            LET f == CallS(clean.op, clean.data, clean.arg, [k |-> k, mode |-> mode], clean.start) IN
            f.res.oom \/ C06Fault(n, clean, f) # "fail"

SessionChecks ==
    LET n == UProgs[pi]
        z == ZCall
    IN
    \* C06 root: only ConstructError subclasses leave a parse
    (IF cur.op = "parse" THEN [i \in 1..Len(RootChecks(cur)) |-> [RootChecks(cur)[i] EXCEPT !.node = phase]] ELSE <<>>)
    \o (IF ~z.res.oom /\ ~(z.res.ok /\ ~z.res.v.neg) /\ z.res.err # "SizeofError" /\ phase = "parse" THEN F("Z-total") ELSE <<>>)
    \* known hole (known_findings.json, C05): a sizing wrapper answers without asking a member that holds StopIf -- the negative control
    \o (IF ~z.res.oom /\ (Control \/ ~AnyNode(n, {"StopIf"})) /\ phase = "build" /\ cur.res.ok /\
           (C05Exact(n, z, cur) = "fail" \/
            \* "parsing those bytes followed by arbitrary trailing data advances the input stream by exactly n"
            \E t \in {<<>>, <<255>>, <<0, 1>>} : LET p == Call("parse", cur.res.v.b \o t, VNone) IN ~p.res.oom /\ C05Exact(n, z, p) = "fail")
        THEN F("Z-exact") ELSE <<>>)
    \o (IF phase = "build" /\ cur.res.ok /\ ~PrefixFails(n, cur, Len(cur.res.v.b) - 1) THEN F("Prefix") ELSE <<>>)
    \o (IF Faults /\ phase \in {"parse", "build"} /\ ~FaultOk(n, cur) THEN F("Faults") ELSE <<>>)
    \o (IF phase = "build" /\ Explicit(n) /\ ~cur.res.ok THEN F("Rebuild") ELSE <<>>)
    \o (IF phase = "reparse" /\ Explicit(n) /\
           ~(cur.res.ok /\ PyEq(cur.res.v, log[1].v)) THEN F("Normal") ELSE <<>>)
    \* ... and the canonical encoding is used up
    \o (IF phase = "reparse" /\ Explicit(n) /\ cur.res.ok /\ cur.res.p # Len(cur.data) THEN F("Tight") ELSE <<>>)

Summary(cs) == [op |-> cs.op, ok |-> cs.res.ok, err |-> cs.res.err, p |-> cs.res.p, v |-> cs.res.v, oom |-> cs.res.oom, start |-> cs.start,
                data |-> cs.data, arg |-> cs.arg]
Return ==
    /\ phase \in {"parse", "build", "reparse"}
    /\ (cur.res.oom \/ (pc = Len(cur.events) /\ stack = <<>>))
    /\ LET bad == IF cur.res.oom THEN <<>> ELSE SessionChecks
           log2 == Append(log, Summary(cur))
           nxt == IF cur.res.oom \/ ~cur.res.ok \/ phase = "reparse" THEN "done"
                  ELSE IF phase = "parse" THEN "build" ELSE "reparse"
       IN /\ fails' = fails \o bad
          /\ log' = log2
          /\ phase' = nxt
          /\ cur' = CASE nxt = "build" -> Call("build", Filler(st), cur.res.v)
                      [] nxt = "reparse" -> CallS("parse", Filler(st) \o cur.res.v.b, VNone, NoFlt, st)
                      [] OTHER -> NoCall
          /\ (bad # <<>> /\ Survey => PrintT(ToJson([id |-> "fail", pi |-> pi, data |-> data, bad |-> bad])))
          /\ (nxt = "done" /\ Emit => PrintT(ToJson([id |-> "s", pi |-> pi, data |-> data, st |-> st, calls |-> log2])))
    /\ pc' = 0 /\ stack' = <<>> /\ UNCHANGED <<pi, data, st>>

Next == Start \/ Enter \/ Leave \/ Return
Spec == Init /\ [][Next]_vars

\* ---- what TLC checks
NoClauseFails == Survey \/ fails = <<>>
\* the stack is empty exactly between calls (well-bracketed plans)
Bracketed == (phase \in {"start", "done"} => stack = <<>>) /\ (pc = 0 => stack = <<>>)
Universe0 == ToJson([id |-> "universe", progs |-> UProgs, kw |-> UKw,
                     explicit |-> Cardinality({i \in 1..NP : Explicit(UProgs[i])})])
ASSUME Emit => PrintT(Universe0)
=============================================================================
