------------------------------ MODULE Session ------------------------------
(***************************************************************************)
(* Sessions: several public calls on a pool of construct objects that share *)
(* members (the module singletons Byte, VarInt, Pass ... are shared by      *)
(* every user), issued one after another or from several threads.           *)
(*                                                                         *)
(* A thread performs a call by taking the boundary events Sem prescribes    *)
(* for it one at a time; threads interleave at that granularity.  The only  *)
(* state threads could share is `attrs`, the attribute store of the         *)
(* construct objects.  The library's design is that no step writes it       *)
(* (Frozen); then every result is a function of (construct, input,          *)
(* keywords) alone (Pure), whatever the history and the schedule.           *)
(* `Memo` switches on a deliberately stateful member -- a construct that     *)
(* remembers the last value it parsed and returns it the next time -- as a  *)
(* negative control: TLC must find the Pure violation.                      *)
(***************************************************************************)
EXTENDS Props, TLC

CONSTANTS Pool,        \* sequence of programs
          Calls,       \* set of call records [pi, op, data, start, kw, arg]
          NThreads,
          Memo         \* BOOLEAN: negative control
VARIABLES attrs,       \* the shared attribute store: here one cell, the memo of the shared member
          thr,         \* per thread: [call, plan, pc, res]  (call = 0: idle)
          hist         \* completed calls: [call, res]
vars == <<attrs, thr, hist>>

Idle == [call |-> [pi |-> 0], plan |-> <<>>, pc |-> 0, res |-> [ok |-> TRUE, v |-> VNone, err |-> "", p |-> 0]]
CallRec(c) == [op |-> c.op, data |-> c.data, start |-> c.start, kw |-> c.kw, flt |-> NoFlt, arg |-> c.arg, events |-> <<>>, res |-> Idle.res]
Specified(c) == ModelCall(Pool[c.pi], CallRec(c))

Init == attrs = VNone /\ thr = [t \in 1..NThreads |-> Idle] /\ hist = <<>>

Begin(t, c) ==
    /\ thr[t].call.pi = 0 /\ Len(hist) + Cardinality({u \in 1..NThreads : thr[u].call.pi # 0}) < 2 * NThreads
    /\ LET m == Specified(c) IN
       thr' = [thr EXCEPT ![t] = [call |-> c, plan |-> m.events, pc |-> 0, res |-> m.res]]
    /\ UNCHANGED <<attrs, hist>>
\* one boundary event of thread t.  With Memo, leaving the shared member (a Flag-class node) reads and writes the store
Step(t) ==
    /\ thr[t].call.pi # 0 /\ thr[t].pc < Len(thr[t].plan)
    /\ LET ev == thr[t].plan[thr[t].pc + 1] IN
       IF Memo /\ ev.e = "out" /\ ev.k = "Flag" /\ ev.op = "parse" /\ ev.ok
       THEN /\ attrs' = ev.v
            /\ thr' = [thr EXCEPT ![t].pc = @ + 1,
                                  ![t].res = IF attrs # VNone /\ attrs # ev.v THEN [@ EXCEPT !.v = VOpaque("stale")] ELSE @]
       ELSE /\ thr' = [thr EXCEPT ![t].pc = @ + 1] /\ UNCHANGED attrs
    /\ UNCHANGED hist
Finish(t) ==
    /\ thr[t].call.pi # 0 /\ thr[t].pc = Len(thr[t].plan)
    /\ hist' = Append(hist, [call |-> thr[t].call, res |-> thr[t].res])
    /\ thr' = [thr EXCEPT ![t] = Idle]
    /\ UNCHANGED attrs
Next == \E t \in 1..NThreads : (\E c \in Calls : Begin(t, c)) \/ Step(t) \/ Finish(t)
Spec == Init /\ [][Next]_vars

\* every completed call returned what the specification prescribes for it alone
Pure == \A i \in 1..Len(hist) : hist[i].res = Specified(hist[i].call).res
\* identical calls give identical results wherever they sit in the history
Repeatable == \A i, j \in 1..Len(hist) : hist[i].call = hist[j].call => hist[i].res = hist[j].res
Frozen == [][attrs' = attrs]_vars
=============================================================================
