------------------------------ MODULE TraceExpr ------------------------------
(***************************************************************************)
(* Conformance for C11: expression objects built through the real overloads *)
(* of this / obj_ / len_ ... are compared with the specification:           *)
(*   (i)   repr(expr) is exactly the text the rendering rules prescribe;    *)
(*   (ii)  expr(env) is what Eval prescribes (value or exception class);    *)
(*   (iii) Python's own evaluation of repr(expr), with the placeholders     *)
(*         bound, gives the same result as expr(env) -- recorded by the     *)
(*         harness, compared here.                                          *)
(***************************************************************************)
EXTENDS ExprRender, Json, IOUtils, TLCExt

Input == JsonDeserialize(IOEnv.TRACE_FILE)
Cases == Input.cases
Envs == Input.envs            \* environments shared by all cases: [root, lst]
Done == {Input.done[i] : i \in 1..Len(Input.done)}
VARIABLES cid, done

Ctx0 == [fr |-> <<VEmptyDict>>, p |-> 1, mode |-> "parse"]
ResEq(a, b) == a.ok = b.ok /\ (IF a.ok THEN (IF a.v.t = "rat" \/ b.v.t = "rat" THEN a.v = b.v ELSE (a.v.t = "opaque" \/ b.v.t = "opaque" \/ PyEq(a.v, b.v)) /\ (a.v.t = "bool") = (b.v.t = "bool"))
                               ELSE a.err = b.err)
RECURSIVE RunDiff(_, _, _)
RunDiff(cs, runs, i) ==
    IF i > Len(runs) THEN [why |-> "", at |-> 0]
    ELSE LET r == runs[i]
             m == Eval(cs.e, Envs[r.ei].root, Envs[r.ei].lst, Ctx0)
             mm == [ok |-> m.ok, v |-> m.v, err |-> m.err]
         IN IF m.err = OutOfModel \/ (r.val.ok /\ r.val.v.t = "opaque") THEN RunDiff(cs, runs, i + 1)
            ELSE IF ~ResEq(mm, r.val) THEN [why |-> "eval", at |-> i]
            ELSE IF ~ResEq(r.val, r.ev) THEN [why |-> "repr-denotes", at |-> i]
            ELSE RunDiff(cs, runs, i + 1)
Verdict(cs) ==
    IF Text(cs.e) # cs.repr THEN [id |-> cs.id, st |-> "mismatch", why |-> "repr-text", at |-> 0, exp |-> Text(cs.e), got |-> cs.repr]
    ELSE LET d == RunDiff(cs, cs.runs, 1) IN
         IF d.why # "" THEN [id |-> cs.id, st |-> "mismatch", why |-> d.why, at |-> d.at, exp |-> "", got |-> ""]
         ELSE [id |-> cs.id, st |-> "ok", why |-> "", at |-> 0, exp |-> "", got |-> ""]
Init == cid \in {i \in 1..Len(Cases) : Cases[i].id \notin Done} /\ done = FALSE
Next == ~done /\ done' = TRUE /\ cid' = cid /\ PrintT(ToJson(Verdict(Cases[cid])))
=============================================================================
