----------------------------- MODULE RefFormats -----------------------------
(***************************************************************************)
(* Closed-form definitions of the integer wire formats on native integers, *)
(* written from the format definitions only (positional notation, two's    *)
(* complement, LEB128, protobuf ZigZag).  They exist to cross-check        *)
(* Codecs.tla, which works on byte/bit sequences of unbounded width.       *)
(***************************************************************************)
EXTENDS Integers, Sequences

RECURSIVE RefUnsigned(_)
RefUnsigned(bs) == IF bs = <<>> THEN 0 ELSE RefUnsigned(SubSeq(bs, 1, Len(bs) - 1)) * 256 + bs[Len(bs)]
RefSigned(bs) == LET u == RefUnsigned(bs)  m == 256 ^ Len(bs) IN IF u >= m \div 2 THEN u - m ELSE u
\* big-endian digits of x in [0, 256^n)
RefDigits(x, n) == [i \in 1..n |-> (x \div (256 ^ (n - i))) % 256]
RefEncode(x, n, signed) ==     \* [ok, v]
    LET m == 256 ^ n IN
    IF signed THEN (IF x >= -(m \div 2) /\ x < m \div 2 THEN [ok |-> TRUE, v |-> RefDigits(IF x < 0 THEN x + m ELSE x, n)]
                    ELSE [ok |-> FALSE, v |-> <<>>])
    ELSE (IF x >= 0 /\ x < m THEN [ok |-> TRUE, v |-> RefDigits(x, n)] ELSE [ok |-> FALSE, v |-> <<>>])

\* LEB128: while x > 127 emit (x mod 128) + 128; then emit x
RECURSIVE RefVarInt(_)
RefVarInt(x) == IF x < 128 THEN <<x>> ELSE <<128 + (x % 128)>> \o RefVarInt(x \div 128)
RECURSIVE RefVarIntValue(_)
RefVarIntValue(bs) == IF Len(bs) = 1 THEN bs[1] ELSE (bs[1] % 128) + 128 * RefVarIntValue(SubSeq(bs, 2, Len(bs)))

\* ZigZag: 0 -> 0, -1 -> 1, 1 -> 2, -2 -> 3 ...
RefZigZag(n) == IF n >= 0 THEN 2 * n ELSE -2 * n - 1
RefUnZigZag(u) == IF u % 2 = 0 THEN u \div 2 ELSE -((u + 1) \div 2)
=============================================================================
