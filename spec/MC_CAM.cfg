SPECIFICATION Spec
INVARIANT NoClauseFails
INVARIANT Bracketed
CHECK_DEADLOCK FALSE
