------------------------------ MODULE Grammar ------------------------------
(***************************************************************************)
(* Static predicates on programs: the fragments the property statements    *)
(* quantify over ("sequential", "core fragment", "without greedy, optional *)
(* or look-ahead parts", "exportable", "compilable"), and the bounded      *)
(* universes of programs, values and inputs that the MC_* configurations   *)
(* enumerate.                                                              *)
(***************************************************************************)
EXTENDS Sem

RECURSIVE Kids(_)
\* member programs of a node (after macro expansion)
Kids(n0) ==
    LET n == IF IsMacro(n0) THEN Expand(n0) ELSE n0 IN
    (IF "sub" \in DOMAIN n THEN <<n.sub>> ELSE <<>>)
    \o (IF "subs" \in DOMAIN n THEN n.subs ELSE <<>>)
    \o (IF "lenf" \in DOMAIN n THEN <<n.lenf>> ELSE <<>>)
    \o (IF "then" \in DOMAIN n THEN <<n.then, n.else>> ELSE <<>>)
    \o (IF "cv" \in DOMAIN n THEN n.cv \o <<n.default>> ELSE <<>>)
    \o (IF "field" \in DOMAIN n THEN <<n.field>> ELSE <<>>)
Core(n0) == IF IsMacro(n0) THEN Expand(n0) ELSE n0

RECURSIVE AnyNode(_, _)
\* does some node of the program (after expansion) have its class in K
AnyNode(n, K) == LET m == Core(n)  ks == Kids(n) IN m.k \in K \/ \E i \in 1..Len(ks) : AnyNode(ks[i], K)

Seeking == {"Pointer", "Seek", "Peek", "Union", "Lazy", "LazyStruct", "LazyArray", "OffsettedEnd", "RestreamData"}
Sequential(n) == ~AnyNode(n, Seeking)
Recovering == {"Select", "GreedyRange", "Peek", "Union"}
RECURSIVE HasLenientTerminator(_)
HasLenientTerminator(n) == LET m == Core(n)  ks == Kids(n) IN
    (m.k = "NullTerminated" /\ ~m.require) \/ \E i \in 1..Len(ks) : HasLenientTerminator(ks[i])
\* a terminator that is looked at but left in the stream belongs to the next member's extent
RECURSIVE HasNonConsumingTerminator(_)
HasNonConsumingTerminator(n) == LET m == Core(n)  ks == Kids(n) IN
    (m.k = "NullTerminated" /\ ~m.consume) \/ \E i \in 1..Len(ks) : HasNonConsumingTerminator(ks[i])
\* no construct that absorbs a failure of its member (a stream fault inside it may legitimately be taken for "no match")
NoRecover(n) == ~AnyNode(n, Recovering) /\ ~HasLenientTerminator(n)
\* "without greedy, optional or look-ahead parts" (C06, truncation clause)
GreedyKinds == {"GreedyBytes", "GreedyRange", "NullStripped", "ProcessXor", "ProcessRotateLeft", "Terminated",
                "Select", "Peek", "Pointer", "Union", "Seek", "OffsettedEnd", "Compressed", "StopIf", "RepeatUntil"}
RECURSIVE NoGreedyOptLookahead(_)
NoGreedyOptLookahead(n) ==
    LET m == Core(n)  ks == Kids(n) IN
    /\ m.k \notin GreedyKinds
    /\ ~(m.k = "Transformed" /\ m.damt < 0)
    /\ ~(m.k = "NullTerminated" /\ ~m.require)
    /\ \A i \in 1..Len(ks) : NoGreedyOptLookahead(ks[i])

\* reads to the end of its region whatever the data
RECURSIVE Greedy(_)
Greedy(n0) ==
    LET n == Core(n0) IN
    CASE n.k \in {"GreedyBytes", "GreedyRange", "NullStripped", "ProcessXor", "ProcessRotateLeft", "Compressed"} -> TRUE
      [] n.k = "Transformed" -> n.damt < 0
      [] n.k = "NullTerminated" -> ~n.require
      [] n.k \in {"Struct", "Sequence", "FocusedSeq"} -> \E i \in 1..Len(n.subs) : Greedy(n.subs[i])
      [] n.k = "Select" -> \E i \in 1..Len(n.subs) : Greedy(n.subs[i])
      [] n.k = "IfThenElse" -> Greedy(n.then) \/ Greedy(n.else)
      [] n.k = "Switch" -> Greedy(n.default) \/ \E i \in 1..Len(n.cv) : Greedy(n.cv[i])
      [] n.k \in {"Prefixed", "FixedSized", "Padded", "Pointer", "Peek"} -> FALSE
      [] n.k \in {"Array", "RepeatUntil", "Restreamed", "Renamed", "Const", "Rebuild", "Default", "StringEncoded", "Enum",
                  "FlagsEnum", "Mapping", "ExprValidator", "Hex", "HexDump", "RawCopy", "Aligned", "Lazy"} -> Greedy(n.sub)
      [] OTHER -> FALSE

\* a greedy part only in tail position of its region; elements of repeaters not greedy
RECURSIVE WellFormed(_, _)
WellFormed(n0, tail) ==
    LET n == Core(n0) IN
    CASE n.k \in {"Struct", "Sequence", "FocusedSeq"} ->
            \A i \in 1..Len(n.subs) : WellFormed(n.subs[i], tail /\ i = Len(n.subs))
                                        /\ (i < Len(n.subs) => ~Greedy(n.subs[i]))
      [] n.k \in {"Prefixed", "FixedSized", "NullTerminated", "OffsettedEnd"} ->
            WellFormed(n.sub, TRUE) /\ (n.k = "Prefixed" => WellFormed(n.lenf, FALSE))
      [] n.k \in {"Array", "RepeatUntil", "GreedyRange", "Padded", "Aligned"} ->
            ~Greedy(n.sub) /\ WellFormed(n.sub, FALSE) /\ (n.k = "GreedyRange" => tail)
      [] n.k = "Select" -> \A i \in 1..Len(n.subs) : WellFormed(n.subs[i], tail) /\ (~tail => ~Greedy(n.subs[i]))
      [] n.k = "IfThenElse" -> WellFormed(n.then, tail) /\ WellFormed(n.else, tail) /\ (~tail => ~Greedy(n))
      [] n.k = "Switch" -> (\A i \in 1..Len(n.cv) : WellFormed(n.cv[i], tail)) /\ WellFormed(n.default, tail) /\ (~tail => ~Greedy(n))
      [] n.k \in {"Transformed", "Restreamed", "ProcessXor", "ProcessRotateLeft", "NullStripped", "Compressed"} ->
            (Greedy(n) => tail) /\ WellFormed(n.sub, TRUE)
      [] "sub" \in DOMAIN n -> WellFormed(n.sub, tail) /\ (~tail => ~Greedy(n.sub))
      [] OTHER -> tail \/ ~Greedy(n)
=============================================================================
