SPECIFICATION Spec
INVARIANT LazyEqualsEager
INVARIANT SameFinalPosition
INVARIANT CacheSound
PROPERTY AccessIsInvisible
CHECK_DEADLOCK FALSE
VIEW ViewNoHist
