INIT Init
NEXT Next
INVARIANT Agree
CHECK_DEADLOCK FALSE
