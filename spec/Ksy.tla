--------------------------------- MODULE Ksy ---------------------------------
(***************************************************************************)
(* An interpreter for the Kaitai Struct (KSY) dialect that export_ksy()      *)
(* emits, written from the Kaitai Struct user guide: a `seq` of attributes   *)
(* read in order from a (sub)stream; integer / float / bit types, byte       *)
(* arrays (size, size-eos, terminator / include / consume / eos-error,       *)
(* pad-right, contents), strings (str, strz, encoding), user types, repeat   *)
(* expr / eos / until, if.  It yields for every attribute its identifier,    *)
(* its extent in bits and its value.                                         *)
(*                                                                         *)
(* The document is data (the harness parses the exported text); expression   *)
(* strings arrive tokenised (lexing only) and are parsed here with Python's  *)
(* precedence (ExprRender.Reparse), since the exporter writes repr(expr).    *)
(***************************************************************************)
EXTENDS ExprRender, Codecs

KOk(fs, pos)  == [ok |-> TRUE,  fs |-> fs, pos |-> pos, err |-> "", at |-> ""]
KErr(e, pos)  == [ok |-> FALSE, fs |-> <<>>, pos |-> pos, err |-> e, at |-> ""]
Has(a, key) == key \in DOMAIN a
AlignUp(p) == ((p + 7) \div 8) * 8

\* environment for expressions: the fields read so far in the current type, as a dict value
EnvOf(fs) == VDict([i \in 1..Len(fs) |-> fs[i].id], [i \in 1..Len(fs) |-> fs[i].v])
EvalTokens(toks, fs, last) ==
    LET r == Reparse(toks) IN
    IF ~r.ok THEN EErr("KsySyntax")
    ELSE Eval(r.e, IF last.t = "none" THEN EnvOf(fs) ELSE last, VNone, [fr |-> <<EnvOf(fs)>>, p |-> 1, mode |-> "parse"])
\* a size / count given as an integer, as the name of an earlier field, or as tokens
NumOf(x, fs) ==
    IF x.t = "int" THEN [ok |-> TRUE, v |-> AsInt(x)]
    ELSE IF x.t = "name" THEN (LET j == LastIndexOf([i \in 1..Len(fs) |-> fs[i].id], x.s) IN
                               IF j = 0 \/ ~IsIntLike(fs[j].v) THEN [ok |-> FALSE, v |-> 0] ELSE [ok |-> TRUE, v |-> AsInt(ToIntV(fs[j].v))])
    ELSE IF x.t = "toks" THEN (LET r == EvalTokens(x.toks, fs, VNone) IN
                               IF r.ok /\ IsIntLike(r.v) THEN [ok |-> TRUE, v |-> AsInt(ToIntV(r.v))] ELSE [ok |-> FALSE, v |-> 0])
    ELSE [ok |-> FALSE, v |-> 0]

IntType(t) == t \in {"u1be", "u1le", "s1be", "s1le", "u1", "u2be", "u2le", "u3be", "u3le", "u4be", "u4le", "u8be", "u8le", "s1", "s2be", "s2le", "s3be", "s3le", "s4be", "s4le", "s8be", "s8le"}
IntWidth(t) == CASE t \in {"u1", "s1", "u1be", "u1le", "s1be", "s1le"} -> 1 [] t \in {"u2be", "u2le", "s2be", "s2le"} -> 2 [] t \in {"u3be", "u3le", "s3be", "s3le"} -> 3
                 [] t \in {"u4be", "u4le", "s4be", "s4le"} -> 4 [] OTHER -> 8
FloatType(t) == t \in {"f4be", "f4le", "f8be", "f8le"}
Signed(t) == t \in {"s1be", "s1le", "s1", "s2be", "s2le", "s3be", "s3le", "s4be", "s4le", "s8be", "s8le"}
Little(t) == t \in {"u2le", "u3le", "u4le", "u8le", "s2le", "s3le", "s4le", "s8le", "f4le", "f8le"}

RECURSIVE RunSeq(_, _, _, _, _, _, _), ReadOne(_, _, _, _, _, _), ReadRepeat(_, _, _, _, _, _, _, _)
\* bytes of the window [pos, hi) (bit positions, byte aligned)
BytesAt(data, pos, n) == SubSeq(data, pos \div 8 + 1, pos \div 8 + n)

\* read one value of attribute a (ignoring repeat / if) at bit position pos within a window ending at hi
ReadOne(doc, a, data, pos, hi, fs) ==
    LET ty == IF Has(a, "type") THEN a.type ELSE [t |-> "none"] IN
    IF Has(a, "contents") THEN
        LET p == AlignUp(pos)  n == Len(a.contents) IN
        IF p + 8 * n > hi THEN KErr("EOF", p)
        ELSE IF BytesAt(data, p, n) # a.contents THEN KErr("ContentsMismatch", p)
        ELSE KOk(<<[v |-> VOpaque("contents")]>>, p + 8 * n)
    ELSE IF ty.t = "name" /\ IntType(ty.s) THEN
        LET p == AlignUp(pos)  n == IntWidth(ty.s) IN
        IF p + 8 * n > hi THEN KErr("EOF", p)
        ELSE LET bs == BytesAt(data, p, n)
                 iv == BytesToInt(IF Little(ty.s) THEN Rev(bs) ELSE bs, Signed(ty.s))
             IN KOk(<<[v |-> IF Has(a, "-construct-render") THEN VBool(~IsZero(iv)) ELSE iv]>>, p + 8 * n)
    ELSE IF ty.t = "name" /\ FloatType(ty.s) THEN
        LET p == AlignUp(pos)  n == IF ty.s \in {"f4be", "f4le"} THEN 4 ELSE 8 IN
        IF p + 8 * n > hi THEN KErr("EOF", p)
        ELSE LET bs == BytesAt(data, p, n)  be == IF Little(ty.s) THEN Rev(bs) ELSE bs IN
             KOk(<<[v |-> VFloat(FloatUnpack(be, IF n = 4 THEN "f" ELSE "d"))]>>, p + 8 * n)
    ELSE IF ty.t = "bits" THEN           \* bN: N bits, most significant first
        IF pos + ty.n > hi THEN KErr("EOF", pos)
        ELSE LET bits == SubSeq(BytesToBits(data), pos + 1, pos + ty.n) IN
             KOk(<<[v |-> IF ty.n = 1 /\ Has(a, "-construct-render") THEN VBool(bits[1] = 1) ELSE VIntM(FALSE, BitsToMag(bits))]>>, pos + ty.n)
    ELSE IF ty.t = "name" /\ ty.s = "vlq_base128_le" THEN
        LET p == AlignUp(pos)  e == VarIntEnd(SubSeq(data, 1, hi \div 8), p \div 8 + 1) IN
        IF e = 0 THEN KErr("EOF", p) ELSE KOk(<<[v |-> VarIntDecode(SubSeq(data, p \div 8 + 1, e))]>>, 8 * e)
    ELSE IF (ty.t = "name" /\ ty.s \in {"str", "strz"}) \/ ty.t = "none" \/ (ty.t = "name" /\ Has(doc.types, ty.s)) THEN
        \* a byte array (possibly a string, possibly the substream of a user type)
        LET p == AlignUp(pos)
            strz == ty.t = "name" /\ ty.s = "strz"
            term == IF Has(a, "terminator") THEN a.terminator ELSE IF strz /\ ~Has(a, "size") /\ ~Has(a, "size-eos") THEN 0 ELSE -1
            sized == Has(a, "size") \/ Has(a, "size-eos")
            sz == IF Has(a, "size") THEN NumOf(a.size, fs) ELSE [ok |-> TRUE, v |-> (hi - p) \div 8]
        IN IF ~sz.ok THEN KErr("BadSize", p)
           ELSE IF sized /\ (sz.v < 0 \/ p + 8 * sz.v > hi) THEN KErr("EOF", p)
           ELSE IF ~sized /\ term < 0 /\ ty.t = "name" /\ Has(doc.types, ty.s) THEN
                \* a user type read in place, without a substream
                IF doc.depth > 8 THEN KErr("RecursiveType", p) ELSE
                LET r == RunSeq([doc EXCEPT !.depth = @ + 1], doc.types[ty.s].seq, data, p, hi, <<>>, 1) IN
                IF ~r.ok THEN r ELSE KOk(<<[v |-> EnvOf(r.fs), sub |-> r.fs]>>, r.pos)
           ELSE LET avail == SubSeq(data, p \div 8 + 1, IF sized THEN p \div 8 + sz.v ELSE hi \div 8)
                    ti == IF term >= 0 THEN IndexOf(avail, term) ELSE 0
                    include == Has(a, "include") /\ a.include
                    consume == ~Has(a, "consume") \/ a.consume
                    eoserr == ~Has(a, "eos-error") \/ a["eos-error"]
                    body0 == IF term >= 0 /\ ti > 0 THEN SubSeq(avail, 1, IF include THEN ti ELSE ti - 1) ELSE avail
                    RECURSIVE StripPad(_)
                    StripPad(b) == IF Has(a, "pad-right") /\ b # <<>> /\ b[Len(b)] = a["pad-right"] THEN StripPad(SubSeq(b, 1, Len(b) - 1)) ELSE b
                    body == StripPad(body0)
                    endpos == IF sized THEN p + 8 * sz.v
                              ELSE IF ti > 0 THEN p + 8 * (IF consume THEN ti ELSE ti - 1)
                              ELSE hi
                IN IF term >= 0 /\ ti = 0 /\ ~sized /\ eoserr THEN KErr("EOF", p)
                   ELSE IF ty.t = "name" /\ Has(doc.types, ty.s) THEN
                        IF doc.depth > 8 THEN KErr("RecursiveType", p) ELSE
                        LET r == RunSeq([doc EXCEPT !.depth = @ + 1], doc.types[ty.s].seq, body, 0, 8 * Len(body), <<>>, 1) IN
                        IF ~r.ok THEN r ELSE KOk(<<[v |-> EnvOf(r.fs), sub |-> r.fs, base |-> p]>>, endpos)
                   ELSE IF ty.t = "name" /\ ty.s \in {"str", "strz"} THEN
                        LET txt == IF ty.s = "strz" /\ sized /\ IndexOf(body, 0) > 0 THEN SubSeq(body, 1, IndexOf(body, 0) - 1) ELSE body
                            d == StrDecode(txt, IF Has(a, "encoding") THEN a.encoding ELSE "ascii")
                        IN IF ~d.ok THEN KErr("Encoding", p) ELSE KOk(<<[v |-> VStr(d.v)]>>, endpos)
                   ELSE KOk(<<[v |-> VBytes(body)]>>, endpos)
    ELSE KErr("UnknownType", pos)

\* repeat: expr (count), eos, until (condition on the last element as `_`)
ReadRepeat(doc, a, data, pos, hi, fs, acc, fuel) ==
    LET mode == a.repeat IN
    IF fuel = 0 THEN KErr("Diverges", pos)
    ELSE IF mode = "expr" THEN
        LET n == NumOf(a["repeat-expr"], fs) IN
        IF ~n.ok THEN KErr("BadCount", pos)
        ELSE IF Len(acc) >= n.v THEN KOk(<<[v |-> VList(acc)]>>, pos)
        ELSE LET r == ReadOne(doc, a, data, pos, hi, fs) IN
             IF ~r.ok THEN r ELSE ReadRepeat(doc, a, data, r.pos, hi, fs, Append(acc, r.fs[1].v), fuel - 1)
    ELSE IF mode = "eos" THEN
        IF AlignUp(pos) >= hi THEN KOk(<<[v |-> VList(acc)]>>, pos)
        ELSE LET r == ReadOne(doc, a, data, pos, hi, fs) IN
             IF ~r.ok THEN r ELSE ReadRepeat(doc, a, data, r.pos, hi, fs, Append(acc, r.fs[1].v), fuel - 1)
    ELSE \* until
        LET r == ReadOne(doc, a, data, pos, hi, fs) IN
        IF ~r.ok THEN r
        ELSE LET c == EvalTokens(a["repeat-until"].toks, fs, r.fs[1].v) IN
             IF ~c.ok THEN KErr("BadUntil", pos)
             ELSE IF Truthy(c.v) THEN KOk(<<[v |-> VList(Append(acc, r.fs[1].v))]>>, r.pos)
             ELSE ReadRepeat(doc, a, data, r.pos, hi, fs, Append(acc, r.fs[1].v), fuel - 1)

RunSeq(doc, seq, data, pos, hi, fs, i) ==
    IF i > Len(seq) THEN KOk(fs, pos)
    ELSE LET a == seq[i]
             cond == IF Has(a, "if") THEN EvalTokens(a["if"].toks, fs, VNone) ELSE EOk(VBool(TRUE))
             id == IF Has(a, "id") THEN a.id ELSE ""
         IN IF ~cond.ok THEN [KErr("BadIf", pos) EXCEPT !.fs = fs, !.at = id]
            ELSE IF ~Truthy(cond.v) THEN RunSeq(doc, seq, data, pos, hi, fs, i + 1)
            ELSE LET r == IF Has(a, "repeat") THEN ReadRepeat(doc, a, data, pos, hi, fs, <<>>, 64) ELSE ReadOne(doc, a, data, pos, hi, fs) IN
                 IF ~r.ok THEN [r EXCEPT !.fs = fs, !.at = id]       \* what was read before the failing attribute, and which one failed
                 ELSE LET s0 == IF Has(a, "type") /\ a.type.t = "bits" THEN pos ELSE AlignUp(pos)
                          f == [id |-> id, s |-> s0, e |-> r.pos, v |-> r.fs[1].v]
                      IN RunSeq(doc, seq, data, r.pos, hi, Append(fs, f), i + 1)
\* user types may not nest deeper than 8 (a type that refers to itself does not describe a finite layout)
RunDoc(doc, data) == RunSeq([seq |-> doc.seq, types |-> doc.types, depth |-> 0], doc.seq, data, 0, 8 * Len(data), <<>>, 1)
=============================================================================
