------------------------------ MODULE Containers ------------------------------
(***************************************************************************)
(* Result containers (construct/lib/containers.py) as a heap of objects.    *)
(*                                                                         *)
(*   heap: object id -> [cls: "C" (Container) | "L" (ListContainer) |       *)
(*                       "d" (plain dict) | "l" (plain list),               *)
(*                       k: ordered keys (C, d), v: values]                 *)
(*   a value is a scalar (tagged, Values.tla) or a reference [t: "ref", o]  *)
(*   -- aliasing is explicit.                                               *)
(*                                                                         *)
(* Operations: item / attribute assignment, deletion, update, clear, pop,   *)
(* copy (shallow), deepcopy and a pickle round trip (fresh object graph).   *)
(* A Container's three views -- attributes, keys, iteration -- are by       *)
(* definition the same ordered entries; equality ignores insertion order    *)
(* and entries whose key starts with an underscore, and goes through nested *)
(* containers and lists.                                                    *)
(***************************************************************************)
EXTENDS Values, FiniteSets

VRef(o) == [t |-> "ref", o |-> o]
IsRef(v) == v.t = "ref"
NewC(k, v) == [cls |-> "C", k |-> k, v |-> v]
NewL(xs) == [cls |-> "L", k |-> <<>>, v |-> xs]

\* ---- operations: heap -> heap
SetItem(h, o, key, val) == LET i == IndexOf(h[o].k, key) IN
    IF i = 0 THEN [h EXCEPT ![o].k = Append(@, key), ![o].v = Append(@, val)]
    ELSE [h EXCEPT ![o].v[i] = val]
RemoveAt(s, i) == SubSeq(s, 1, i - 1) \o SubSeq(s, i + 1, Len(s))
DelItem(h, o, key) == LET i == IndexOf(h[o].k, key) IN     \* key present
    [h EXCEPT ![o].k = RemoveAt(@, i), ![o].v = RemoveAt(@, i)]
Clear(h, o) == [h EXCEPT ![o].k = <<>>, ![o].v = <<>>]
RECURSIVE UpdateFrom(_, _, _, _)
UpdateFrom(h, o, src, i) == IF i > Len(h[src].k) THEN h ELSE UpdateFrom(SetItem(h, o, h[src].k[i], h[src].v[i]), o, src, i + 1)
Update(h, o, src) == UpdateFrom(h, o, src, 1)
AppendL(h, o, val) == [h EXCEPT ![o].v = Append(@, val)]
\* shallow copy: a new object with the same entries (nested objects shared)
Copy(h, o) == Append(h, h[o])
\* deep copy / pickle round trip: a fresh copy of everything reachable from o, aliasing inside the copy preserved
RECURSIVE Reach(_, _, _)
Reach(h, todo, seen) ==
    IF todo = {} THEN seen
    ELSE LET o == CHOOSE x \in todo : TRUE
             kids == {h[o].v[i].o : i \in {j \in 1..Len(h[o].v) : IsRef(h[o].v[j])}}
         IN Reach(h, (todo \cup kids) \ (seen \cup {o}), seen \cup {o})
SortedSeq(S) == LET n == Cardinality(S) IN [i \in 1..n |-> CHOOSE x \in S : Cardinality({y \in S : y < x}) = i - 1]
DeepCopy(h, o) ==         \* result: [h: new heap, o: id of the copy of o]
    LET R == SortedSeq(Reach(h, {o}, {}))
        base == Len(h)
        map(x) == base + IndexOf(R, x)
        clone(x) == [h[x] EXCEPT !.v = [i \in 1..Len(h[x].v) |-> IF IsRef(h[x].v[i]) THEN VRef(map(h[x].v[i].o)) ELSE h[x].v[i]]]
    IN [h |-> h \o [i \in 1..Len(R) |-> clone(R[i])], o |-> map(o)]

\* ---- equality (Container.__eq__, list equality), on a heap without cycles
RECURSIVE Eq(_, _, _), ObjEq(_, _, _)
Eq(h, a, b) == IF IsRef(a) /\ IsRef(b) THEN ObjEq(h, a.o, b.o)
               ELSE IF IsRef(a) \/ IsRef(b) THEN FALSE
               ELSE PyEq(a, b)
Pub(obj) == {i \in 1..Len(obj.k) : ~IsPrivateKey(obj.k[i])}
ObjEq(h, x, y) ==
    LET a == h[x]  b == h[y] IN
    IF x = y THEN TRUE
    ELSE IF a.cls \in {"L", "l"} /\ b.cls \in {"L", "l"} THEN
        Len(a.v) = Len(b.v) /\ \A i \in 1..Len(a.v) : Eq(h, a.v[i], b.v[i])
    ELSE IF a.cls \in {"C", "d"} /\ b.cls \in {"C", "d"} THEN
        IF a.cls = "d" /\ b.cls = "d" THEN      \* two plain dicts: every key counts
            /\ \A i \in 1..Len(a.k) : IndexOf(b.k, a.k[i]) # 0 /\ Eq(h, a.v[i], b.v[IndexOf(b.k, a.k[i])])
            /\ Len(a.k) = Len(b.k)
        ELSE
            /\ \A i \in Pub(a) : IndexOf(b.k, a.k[i]) # 0 /\ Eq(h, a.v[i], b.v[IndexOf(b.k, a.k[i])])
            /\ \A i \in Pub(b) : IndexOf(a.k, b.k[i]) # 0
    ELSE FALSE

\* ---- search / search_all: entries whose key matches, depth first in order; container-valued entries are descended into
RECURSIVE SearchAll(_, _, _)
SearchAll(h, o, match) ==        \* match: set of keys the pattern matches (computed by `re`, which is not under test)
    LET a == h[o] IN
    IF a.cls = "L" THEN Flatten([i \in 1..Len(a.v) |-> IF IsRef(a.v[i]) /\ h[a.v[i].o].cls \in {"C", "L"} THEN SearchAll(h, a.v[i].o, match) ELSE <<>>])
    ELSE Flatten([i \in 1..Len(a.k) |->
            IF IsRef(a.v[i]) /\ h[a.v[i].o].cls \in {"C", "L"} THEN SearchAll(h, a.v[i].o, match)
            ELSE IF a.k[i] \in match THEN <<a.v[i]>> ELSE <<>>])

\* search (first match), as the library has it: depth first in entry order; a container-valued entry is descended into and a
\* result of None from inside it counts as "nothing found there"; a matching scalar entry is returned even if it is None
RECURSIVE Search1(_, _, _), Search1From(_, _, _, _)
Search1(h, o, match) == Search1From(h, o, match, 1)
Search1From(h, o, match, i) ==
    LET a == h[o] IN
    IF i > Len(a.v) THEN [ok |-> FALSE, v |-> VNone]
    ELSE IF IsRef(a.v[i]) /\ h[a.v[i].o].cls \in {"C", "L"} THEN
         LET r == Search1(h, a.v[i].o, match) IN
         IF r.ok /\ r.v # VNone THEN r ELSE Search1From(h, o, match, i + 1)
    ELSE IF a.cls = "C" /\ a.k[i] \in match THEN [ok |-> TRUE, v |-> a.v[i]]
    ELSE Search1From(h, o, match, i + 1)
=============================================================================
