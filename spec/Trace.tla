------------------------------- MODULE Trace -------------------------------
(***************************************************************************)
(* Trace validation: behaviours recorded from the real library (one case   *)
(* = one public call with its construct-boundary events and its result)    *)
(* are checked against the behaviour Sem prescribes for the same call.     *)
(*                                                                         *)
(* One initial state per case; the single step of a chain computes the     *)
(* plan, walks the recorded events against it and prints a total, typed    *)
(* verdict.  No TLC error is used for an implementation mismatch, so one   *)
(* run reports every failing case.  CAM.tla replays the same recordings    *)
(* one event per state for the stack-based (T1) invariants.                *)
(***************************************************************************)
EXTENDS Sem, Json, IOUtils, TLCExt

Input == JsonDeserialize(IOEnv.TRACE_FILE)
Cases == Input.cases
Progs == Input.progs
Strict == Input.strict        \* TRUE: foreign exception classes must match as "foreign" (C06)

VARIABLES cid, done

PlanOf(cs) ==
    LET n == Progs[cs.pi] IN
    CASE cs.op = "parse"  -> IF cs.flt.k = 0 /\ cs.flt.mode = "none" THEN ParseCall(n, cs.data, cs.start, cs.kw)
                             ELSE ParseFaulty(n, cs.data, cs.start, cs.kw, cs.flt)
      [] cs.op = "build"  -> IF cs.flt.k = 0 /\ cs.flt.mode = "none" THEN BuildCall(n, cs.arg, cs.data, cs.kw)
                             ELSE BuildFaulty(n, cs.arg, cs.data, cs.kw, cs.flt)
      [] cs.op = "sizeof" -> SizeofCall(n, cs.kw)

\* coarse error classes: what the properties distinguish
ErrAbs(cls) == CASE cls = "StreamError" -> "stream" [] cls = "ExplicitError" -> "explicit"
                 [] cls = "StopFieldError" -> "stop" [] cls = "SizeofError" -> "sizeof"
                 [] cls = "ChecksumError" -> "checksum"
                 [] IsConstructError(cls) -> "construct"
                 [] OTHER -> "foreign"
\* exp: class prescribed by Sem; got: class recorded.  Where today's code lets a foreign exception
\* through, any failure is accepted unless the case is strict.
ErrMatch(exp, got) == IF IsConstructError(exp) THEN ErrAbs(exp) = ErrAbs(got)
                      ELSE (~Strict) \/ ErrAbs(got) = "foreign"

RECURSIVE HasOpaque(_)
HasOpaque(v) == CASE v.t = "opaque" -> TRUE
                  [] v.t = "list" -> \E i \in 1..Len(v.xs) : HasOpaque(v.xs[i])
                  [] v.t = "dict" -> \E i \in 1..Len(v.v) : HasOpaque(v.v[i])
                  [] OTHER -> FALSE
ValEq(a, b) == HasOpaque(a) \/ HasOpaque(b) \/ PyEq(a, b)

\* first disagreement between plan event x and recorded event r ("" = none)
EvDiff(x, r) ==
    IF x.e # r.e \/ x.k # r.k \/ x.op # r.op THEN "event-kind"
    ELSE IF x.e = "in" THEN
        (IF x.op # "sizeof" /\ x.p # r.p THEN "in-pos"
         ELSE IF x.op = "build" /\ ~ValEq(x.v, r.v) THEN "in-arg" ELSE "")
    ELSE IF x.ok # r.ok THEN "out-status"
    ELSE IF x.ok THEN (IF ~ValEq(x.v, r.v) THEN "out-value"
                       ELSE IF x.op # "sizeof" /\ x.p # r.p THEN "out-pos" ELSE "")
    ELSE IF ~ErrMatch(x.err, r.err) THEN "out-errclass" ELSE ""

RECURSIVE FirstDiff(_, _, _)
FirstDiff(plan, rec, i) ==
    IF i > Len(plan) /\ i > Len(rec) THEN [at |-> 0, why |-> ""]
    ELSE IF i > Len(plan) \/ i > Len(rec) THEN [at |-> i, why |-> "length"]
    ELSE LET d == EvDiff(plan[i], rec[i]) IN
         IF d # "" THEN [at |-> i, why |-> d] ELSE FirstDiff(plan, rec, i + 1)

OutOfModelIn(plan, r) == r.err \in {OutOfModel, "Diverges"} \/ \E i \in 1..Len(plan) : plan[i].err \in {OutOfModel, "Diverges"}

ResultDiff(cs, r) ==
    IF r.ok # cs.res.ok THEN "result-status"
    ELSE IF ~r.ok THEN (IF ErrMatch(r.err, cs.res.err) THEN "" ELSE "result-errclass")
    ELSE IF cs.op = "parse" THEN (IF ~ValEq(r.v, cs.res.v) THEN "result-value"
                                  ELSE IF Tell(r.s) # cs.res.p THEN "result-pos" ELSE "")
    ELSE IF cs.op = "build" THEN (IF SubSeq(r.s.data, Len(cs.data) + 1, Len(r.s.data)) # cs.res.v.b THEN "result-bytes"
                                  ELSE IF Tell(r.s) # cs.res.p THEN "result-pos" ELSE "")
    ELSE (IF VInt(r.v) # cs.res.v THEN "result-value" ELSE "")

Blank == [e |-> "-", k |-> "-", op |-> "-", p |-> 0, ok |-> TRUE, v |-> VNone, err |-> ""]
Verdict(cs) ==
    LET r == PlanOf(cs)
        plan == r.ev
    IN IF OutOfModelIn(plan, r) THEN [id |-> cs.id, st |-> "skipped", at |-> 0, why |-> "out-of-model", exp |-> Blank, got |-> Blank]
       ELSE LET d == FirstDiff(plan, cs.events, 1) IN
            IF d.at # 0 THEN [id |-> cs.id, st |-> "mismatch", at |-> d.at, why |-> d.why,
                              exp |-> IF d.at <= Len(plan) THEN plan[d.at] ELSE Blank,
                              got |-> IF d.at <= Len(cs.events) THEN cs.events[d.at] ELSE Blank]
            ELSE LET rd == ResultDiff(cs, r) IN
                 IF rd # "" THEN [id |-> cs.id, st |-> "mismatch", at |-> 0, why |-> rd,
                                  exp |-> [Blank EXCEPT !.ok = r.ok, !.err = r.err, !.p = Tell(r.s),
                                                        !.v = IF cs.op = "build" /\ r.ok THEN VBytes(SubSeq(r.s.data, Len(cs.data) + 1, Len(r.s.data)))
                                                              ELSE IF cs.op = "sizeof" /\ r.ok THEN VInt(r.v) ELSE r.v],
                                  got |-> [Blank EXCEPT !.ok = cs.res.ok, !.err = cs.res.err, !.p = cs.res.p, !.v = cs.res.v]]
                 ELSE [id |-> cs.id, st |-> "ok", at |-> 0, why |-> "", exp |-> Blank, got |-> Blank]

Init == cid \in 1..Len(Cases) /\ done = FALSE
Next == /\ ~done
        /\ done' = TRUE
        /\ cid' = cid
        /\ PrintT(ToJson(Verdict(Cases[cid])))
Spec == Init /\ [][Next]_<<cid, done>>
=============================================================================
