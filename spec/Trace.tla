------------------------------- MODULE Trace -------------------------------
(***************************************************************************)
(* Trace validation: behaviours recorded from the real library (one case   *)
(* = one public call with its construct-boundary events and its result)    *)
(* are checked against the behaviour Sem prescribes for the same call.     *)
(*                                                                         *)
(* One initial state per case; the single step of a chain computes the     *)
(* plan, walks the recorded events against it and prints a total, typed    *)
(* verdict.  No TLC error is used for an implementation mismatch, so one   *)
(* run reports every failing case.  CAM.tla replays the same recordings    *)
(* one event per state for the stack-based (T1) invariants.                *)
(***************************************************************************)
EXTENDS Props, Json, IOUtils, TLCExt

Input == JsonDeserialize(IOEnv.TRACE_FILE)
Cases == Input.cases
Progs == Input.progs
Sessions == Input.sessions
Done == {Input.done[i] : i \in 1..Len(Input.done)}
Strict == Input.strict        \* TRUE: foreign exception classes must match as "foreign" (C06)

VARIABLES cid, done

PlanOf(cs) == Model(Progs[cs.pi], cs)

\* coarse error classes: what the properties distinguish
ErrAbs(cls) == CASE cls = "StreamError" -> "stream" [] cls = "ExplicitError" -> "explicit"
                 [] cls = "StopFieldError" -> "stop" [] cls = "SizeofError" -> "sizeof"
                 [] cls = "ChecksumError" -> "checksum"
                 [] IsConstructError(cls) -> "construct"
                 [] OTHER -> "foreign"
\* exp: class prescribed by Sem; got: class recorded.  Where today's code lets a foreign exception
\* through, any failure is accepted unless the case is strict.
ErrMatch(exp, got) == IF IsConstructError(exp) THEN ErrAbs(exp) = ErrAbs(got)
                      ELSE (~Strict) \/ ErrAbs(got) = "foreign"

\* first disagreement between plan event x and recorded event r ("" = none)
EvDiff(x, r) ==
    IF x.e # r.e \/ x.k # r.k \/ x.op # r.op THEN "event-kind"
    ELSE IF x.e = "in" THEN
        (IF x.op # "sizeof" /\ x.p # r.p THEN "in-pos"
         ELSE IF x.op = "build" /\ ~ValEq(x.v, r.v) THEN "in-arg" ELSE "")
    ELSE IF x.ok # r.ok THEN "out-status"
    ELSE IF x.ok THEN (IF ~ValEq(x.v, r.v) THEN "out-value"
                       ELSE IF x.op # "sizeof" /\ x.p # r.p THEN "out-pos" ELSE "")
    ELSE IF ~ErrMatch(x.err, r.err) THEN "out-errclass" ELSE ""

RECURSIVE FirstDiff(_, _, _)
FirstDiff(plan, rec, i) ==
    IF i > Len(plan) /\ i > Len(rec) THEN [at |-> 0, why |-> ""]
    ELSE IF i > Len(plan) \/ i > Len(rec) THEN [at |-> i, why |-> "length"]
    ELSE LET d == EvDiff(plan[i], rec[i]) IN
         \* where today's code lets a foreign exception through, what happens from there on is not specified
         \* event by event (only the call's result is compared): reported as a structural difference
         IF d # "" THEN [at |-> i, why |-> IF plan[i].e = "out" /\ ~plan[i].ok /\ ~IsConstructError(plan[i].err) THEN "event-kind" ELSE d]
         ELSE FirstDiff(plan, rec, i + 1)


ResultDiff(cs, r) ==
    IF r.ok # cs.res.ok THEN "result-status"
    ELSE IF ~r.ok THEN (IF ErrMatch(r.err, cs.res.err) THEN "" ELSE "result-errclass")
    ELSE IF cs.op = "parse" THEN (IF ~ValEq(r.v, cs.res.v) THEN "result-value"
                                  ELSE IF Tell(r.s) # cs.res.p THEN "result-pos" ELSE "")
    ELSE IF cs.op = "build" THEN (IF SubSeq(r.s.data, Len(cs.data) + 1, Len(r.s.data)) # cs.res.v.b THEN "result-bytes"
                                  ELSE IF Tell(r.s) # cs.res.p THEN "result-pos" ELSE "")
    ELSE (IF VInt(r.v) # cs.res.v THEN "result-value" ELSE "")

Blank == [e |-> "-", k |-> "-", nm |-> "", op |-> "-", p |-> 0, ok |-> TRUE, v |-> VNone, err |-> "", path |-> <<>>]
\* A verdict carries the first event-level disagreement (why, at, exp, got) and, independently, the
\* disagreement of the call's observable result (rd): status, value / bytes, final position.
Verdict(cs) ==
    LET r == PlanOf(cs)
        plan == r.ev
    IN IF "skip" \in DOMAIN cs THEN [id |-> cs.id, st |-> "skipped", at |-> 0, why |-> "oversize", rd |-> "", exp |-> Blank, got |-> Blank]
       ELSE IF IsOOM(r) THEN [id |-> cs.id, st |-> "skipped", at |-> 0, why |-> "out-of-model", rd |-> "", exp |-> Blank, got |-> Blank]
       ELSE LET d == FirstDiff(plan, cs.events, 1)
                rd == ResultDiff(cs, r)
                mexp == [Blank EXCEPT !.ok = r.ok, !.err = r.err, !.p = Tell(r.s), !.v = ModelRes(cs, r).v]
                mgot == [Blank EXCEPT !.ok = cs.res.ok, !.err = cs.res.err, !.p = cs.res.p, !.v = cs.res.v]
            IN IF d.at # 0 THEN [id |-> cs.id, st |-> "mismatch", at |-> d.at, why |-> d.why, rd |-> rd,
                                 exp |-> IF d.why \in {"event-kind", "length"} /\ rd # "" THEN mexp
                                         ELSE IF d.at <= Len(plan) THEN plan[d.at] ELSE Blank,
                                 got |-> IF d.why \in {"event-kind", "length"} /\ rd # "" THEN mgot
                                         ELSE IF d.at <= Len(cs.events) THEN cs.events[d.at] ELSE Blank]
               ELSE IF rd # "" THEN [id |-> cs.id, st |-> "mismatch", at |-> 0, why |-> "", rd |-> rd, exp |-> mexp, got |-> mgot]
               ELSE [id |-> cs.id, st |-> "ok", at |-> 0, why |-> "", rd |-> "", exp |-> Blank, got |-> Blank]

\* property predicates over several recorded calls of one program
SessionVerdict(x) ==
    LET c == [i \in 1..Len(x.cs) |-> Cases[x.cs[i]]]
        n == Progs[c[1].pi]
        st == CASE x.clause = "C01.sym"   -> C01Sym(n, c[1], c[2])
                [] x.clause = "C02.canon" -> C02Canon(n, c[1], c[2], c[3], c[4])
                [] x.clause = "C02.self"  -> C02Self(n, c[1], c[2], c[3])
                [] x.clause = "C02.stable" -> C02Stable(c[1], c[2], c[3], c[4])
                [] x.clause = "C05.exact" -> C05Exact(n, c[1], c[2])
                [] x.clause = "C05.total" -> C05Total(n, c[1])
                [] x.clause = "C06.prefix" -> C06Prefix(n, c[1], c[2])
                [] x.clause = "C06.fault" -> C06Fault(n, c[1], c[2])
                [] x.clause = "C12.equiv" -> C12Equiv(c[1], c[2])
                [] x.clause = "C17.pure" -> C17Same(c[1], c[2])
                [] x.clause = "C17.entry" -> C17Entry(c[1], c[2])
                [] x.clause = "C17.offset" -> C17Offset(n, c[1], c[2])
                [] x.clause = "C17.frozen" -> C17Frozen(x.x)
                [] x.clause = "C09.alt-stream" -> C09AltStream(c[1], x.x)
                [] x.clause = "C16.history" -> C16History(c[1], x.x)
                [] x.clause = "C16.eager-equal" -> C16Eager(c[1], c[2])
                [] x.clause = "C04.equiv" -> C04Equiv(n, c[1], c[2])
                [] x.clause = "C10.paths" -> C12Equiv(c[1], c[2])
                [] x.clause = "C10.bitref" -> C10BitRef(n, c[1])
                [] x.clause = "C15.inverse" -> C12Equiv(c[1], c[2])
                [] x.clause = "C14.verifies" -> C14Verifies(n, c[1], c[2])
                [] x.clause = "C14.detects" -> C14Detects(n, c[1], c[2])
                [] x.clause = "C14.samebytes" -> C14SameBytes(n, c[1], c[2])
                [] x.clause = "C18.trunc" -> C18Trunc(n, c[1], c[2])
    IN [id |-> x.id, st |-> st, at |-> 0, why |-> x.clause, rd |-> "", exp |-> Blank, got |-> Blank]

NC == Len(Cases)
IdOf(i) == IF i <= NC THEN Cases[i].id ELSE Sessions[i - NC].id
Init == cid \in {i \in 1..(NC + Len(Sessions)) : IdOf(i) \notin Done} /\ done = FALSE
Next == /\ ~done
        /\ done' = TRUE
        /\ cid' = cid
        /\ PrintT(ToJson(IF cid <= NC THEN Verdict(Cases[cid]) ELSE SessionVerdict(Sessions[cid - NC])))
Spec == Init /\ [][Next]_<<cid, done>>
=============================================================================
