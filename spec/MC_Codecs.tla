------------------------------ MODULE MC_Codecs ------------------------------
(***************************************************************************)
(* Design-level check for C03: the sequence-based codecs of Codecs.tla     *)
(* agree with the closed forms of RefFormats.tla on small domains, text    *)
(* codecs invert on sampled planes, and the IEEE-754 narrowing/widening    *)
(* model is consistent on every binary16 pattern.                          *)
(***************************************************************************)
EXTENDS Codecs, RefFormats, IOUtils

Thorough == "MC_TIER" \in DOMAIN IOEnv /\ IOEnv.MC_TIER = "thorough"
VARIABLE st

\* ---- integers: every 1- and 2-byte string, both signednesses
Pairs == {<<a, b>> : a \in 0..255, b \in 0..255}
CheckBytes(bs) ==
    /\ BytesToInt(bs, FALSE) = VInt(RefUnsigned(bs))
    /\ BytesToInt(bs, TRUE) = VInt(RefSigned(bs))
    /\ IntToBytes(VInt(RefUnsigned(bs)), Len(bs), FALSE) = Ok(bs)
    /\ IntToBytes(VInt(RefSigned(bs)), Len(bs), TRUE) = Ok(bs)
    /\ BitsToInt(BytesToBits(bs), FALSE) = VInt(RefUnsigned(bs))
    /\ BitsToInt(BytesToBits(bs), TRUE) = VInt(RefSigned(bs))
    /\ IntToBits(VInt(RefSigned(bs)), 8 * Len(bs), TRUE) = Ok(BytesToBits(bs))
CheckEncode(x, n) ==
    /\ LET r == RefEncode(x, n, FALSE)  c == IntToBytes(VInt(x), n, FALSE) IN r.ok = c.ok /\ (r.ok => r.v = c.v)
    /\ LET r == RefEncode(x, n, TRUE)   c == IntToBytes(VInt(x), n, TRUE)  IN r.ok = c.ok /\ (r.ok => r.v = c.v)
\* ---- VarInt / ZigZag
CheckVarInt(x) ==
    /\ VarIntEncode(VInt(x)) = RefVarInt(x)
    /\ VarIntDecode(RefVarInt(x)) = VInt(x)
    /\ RefVarIntValue(RefVarInt(x)) = x
    /\ VarIntEnd(RefVarInt(x) \o <<0, 255>>, 1) = Len(RefVarInt(x))
CheckZigZag(n) ==
    /\ ZigZagFold(VInt(n)) = VInt(RefZigZag(n))
    /\ ZigZagUnfold(VInt(RefZigZag(n))) = VInt(n)
    /\ RefUnZigZag(RefZigZag(n)) = n
\* ---- text
CheckText(c) ==
    /\ (~IsSurrogate(c)) => /\ StrDecode(StrEncode(<<c, 65, c>>, "utf8").v, "utf8") = Ok(<<c, 65, c>>)
                            /\ StrDecode(StrEncode(<<c, 65>>, "utf_16_le").v, "utf_16_le") = Ok(<<c, 65>>)
                            /\ StrDecode(StrEncode(<<c, 65>>, "utf_16_be").v, "utf_16_be") = Ok(<<c, 65>>)
                            /\ StrDecode(StrEncode(<<c>>, "utf16").v, "utf16") = Ok(<<c>>)
                            /\ StrDecode(StrEncode(<<c, c>>, "utf_32_le").v, "utf_32_le") = Ok(<<c, c>>)
                            /\ StrDecode(StrEncode(<<c>>, "utf_32_be").v, "utf_32_be") = Ok(<<c>>)
                            /\ StrDecode(StrEncode(<<c>>, "utf32").v, "utf32") = Ok(<<c>>)
                            /\ Len(Utf8Enc1(c)) = (IF c < 128 THEN 1 ELSE IF c < 2048 THEN 2 ELSE IF c < 65536 THEN 3 ELSE 4)
    /\ IsSurrogate(c) => ~StrEncode(<<c>>, "utf8").ok /\ ~StrEncode(<<c>>, "utf_16_le").ok /\ ~StrEncode(<<c>>, "utf32").ok
    /\ (c >= 128) => ~StrEncode(<<c>>, "ascii").ok
\* ---- IEEE-754: every binary16 pattern survives widen -> narrow; widening is monotone on positives
Half(h) == <<h \div 256, h % 256>>
IsHalfNaN(h) == ((h \div 1024) % 32) = 31 /\ (h % 1024) # 0
CheckHalf(h) ==
    LET w == FloatUnpack(Half(h), "e")
        b == FloatPack(w, "e")
    IN /\ b.ok
       /\ (~IsHalfNaN(h)) => b.v = Half(h)
       /\ IsHalfNaN(h) => IsNaN(w)
       \* CPython: a binary16 NaN comes back as the canonical quiet NaN of its sign
       /\ IsHalfNaN(h) => b.v = Half(IF h >= 32768 THEN 65024 ELSE 32256) /\ w = <<IF h >= 32768 THEN 255 ELSE 127, 248, 0, 0, 0, 0, 0, 0>>
       /\ (h < 31743 /\ ~IsHalfNaN(h) /\ ~IsHalfNaN(h + 1)) => CmpEq(w, FloatUnpack(Half(h + 1), "e"), 1) < 0
\* known constants: 1.0, -2.0, 65504, smallest subnormal half, float32 max, a value that must overflow float32
F(b) == b
CheckConsts ==
    /\ FloatUnpack(<<127, 128, 0, 1>>, "f") = <<127, 248, 0, 0, 32, 0, 0, 0>>       \* a signalling binary32 NaN is quieted, payload kept
    /\ FloatPack(<<127, 248, 0, 0, 32, 0, 0, 0>>, "f") = Ok(<<127, 192, 0, 1>>)
    /\ FloatUnpack(<<255, 193, 35, 69>>, "f") = <<255, 248, 36, 104, 160, 0, 0, 0>>
    /\ FloatUnpack(<<60, 0>>, "e") = <<63, 240, 0, 0, 0, 0, 0, 0>>                 \* 1.0
    /\ FloatUnpack(<<192, 0>>, "e") = <<192, 0, 0, 0, 0, 0, 0, 0>>                 \* -2.0
    /\ FloatUnpack(<<123, 255>>, "e") = <<64, 239, 252, 0, 0, 0, 0, 0>>            \* 65504.0
    /\ FloatUnpack(<<0, 1>>, "e") = <<62, 112, 0, 0, 0, 0, 0, 0>>                  \* 2^-24
    /\ FloatUnpack(<<63, 128, 0, 0>>, "f") = <<63, 240, 0, 0, 0, 0, 0, 0>>         \* 1.0f
    /\ FloatUnpack(<<0, 0, 0, 1>>, "f") = <<54, 160, 0, 0, 0, 0, 0, 0>>            \* 2^-149
    /\ FloatPack(<<63, 185, 153, 153, 153, 153, 153, 154>>, "f") = Ok(<<61, 204, 204, 205>>)    \* 0.1 -> 0x3dcccccd
    /\ FloatPack(<<71, 239, 255, 255, 224, 0, 0, 0>>, "f") = Ok(<<127, 127, 255, 255>>)         \* FLT_MAX
    /\ ~FloatPack(<<71, 239, 255, 255, 240, 0, 0, 0>>, "f").ok                                   \* rounds to infinity: rejected
    /\ ~FloatPack(<<64, 239, 254, 0, 0, 0, 0, 0>>, "e").ok                                       \* 65520.0: overflows binary16
    /\ FloatPack(<<64, 239, 253, 255, 255, 255, 255, 255>>, "e") = Ok(<<123, 255>>)              \* just below: 65504
    /\ FloatPack(<<62, 96, 0, 0, 0, 0, 0, 0>>, "e") = Ok(<<0, 0>>)                                \* 2^-25: tie to even -> 0
    /\ FloatPack(<<62, 96, 0, 0, 0, 0, 0, 1>>, "e") = Ok(<<0, 1>>)                                \* just above 2^-25 -> 2^-24
    /\ FloatPack(<<127, 240, 0, 0, 0, 0, 0, 0>>, "f") = Ok(<<127, 128, 0, 0>>)                   \* inf
    /\ XorData(<<1, 2, 3>>, VBytes(<<255, 1>>)) = Ok(<<254, 3, 252>>)
    /\ RotLData(<<129, 1>>, 1, 2) = <<2, 3>>
    /\ RotLData(<<129, 1>>, -1, 2) = <<192, 128>>
    /\ RotLData(<<129, 1>>, 17, 2) = <<2, 3>>

Items ==   [t : {"b1"}, i : 0..255] \cup [t : {"b2"}, i : Pairs]
      \cup [t : {"enc"}, i : (-300..300) \cup (32000..33500) \cup (-33500..-32000) \cup (65000..66000), n : {1, 2}]
      \cup [t : {"vi"}, i : 0..(IF Thorough THEN 2100000 ELSE 20000)]
      \cup [t : {"zz"}, i : (IF Thorough THEN -1050000 ELSE -10000)..(IF Thorough THEN 1050000 ELSE 10000)]
      \cup [t : {"txt"}, i : (0..300) \cup (2000..2100) \cup (55200..57400) \cup (65500..65600) \cup (1114000..1114111)]
      \cup [t : {"half"}, i : 0..65535]
      \cup [t : {"consts"}, i : {0}]
Check(it) == CASE it.t = "b1" -> CheckBytes(<<it.i>>)
               [] it.t = "b2" -> CheckBytes(it.i)
               [] it.t = "enc" -> CheckEncode(it.i, it.n)
               [] it.t = "vi" -> CheckVarInt(it.i)
               [] it.t = "zz" -> CheckZigZag(it.i)
               [] it.t = "txt" -> CheckText(it.i)
               [] it.t = "half" -> CheckHalf(it.i)
               [] it.t = "consts" -> CheckConsts
\* 16 initial states partition the items so that all workers evaluate checks
Part(it) == IF it.t = "b2" THEN it.i[2] % 16 ELSE it.i % 16
Init == st \in [t : {"init"}, c : 0..15, ok : {TRUE}]
Next == st.t = "init" /\ \E it \in Items : Part(it) = st.c /\ st' = [t |-> it.t, i |-> it.i, ok |-> Check(it)]
Agree == st.ok
=============================================================================
