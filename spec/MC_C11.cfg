INIT Init
NEXT Next
INVARIANT Faithful
CHECK_DEADLOCK FALSE
