-------------------------------- MODULE CAM --------------------------------
(***************************************************************************)
(* The Construct Abstract Machine as a pushdown machine over construct     *)
(* boundaries.  A behaviour is one public call: `Enter` pushes the node    *)
(* that is entered (class, member name, stream position), `Leave` pops it  *)
(* with a value or an error.  The machine is driven either by the events   *)
(* Sem prescribes (MC_* configurations) or by events recorded from the     *)
(* real library (this module's Trace* actions), one event per state.       *)
(*                                                                         *)
(* The machine-level properties need no semantics of the individual        *)
(* classes: they relate the positions, values, error classes and paths of  *)
(* matching enter/leave pairs and of a node's children (stack discipline). *)
(* They are evaluated at every Leave step of every behaviour:              *)
(*   C09  PeekRestores, PointerRestores, alternatives and repeated         *)
(*        elements start where the contract says and leave no trace,       *)
(*        Union members start together                                     *)
(*   C14  RawCopy reports exactly the extent and bytes its member processed*)
(*   C18  the path of an error names the members on the stack where it     *)
(*        was created, and is kept while it propagates                     *)
(*   C06  only ConstructError subclasses leave the root                    *)
(***************************************************************************)
EXTENDS Machine, Json, IOUtils, TLCExt

Input == JsonDeserialize(IOEnv.TRACE_FILE)
Cases == Input.cases
Progs == Input.progs
Done == {Input.done[i] : i \in 1..Len(Input.done)}

VARIABLES cid       \* the call being replayed
vars == <<cid, pc, stack, fails>>

Init == cid \in {i \in 1..Len(Cases) : Cases[i].id \notin Done} /\ pc = 0 /\ stack = <<>> /\ fails = <<>>

Enter == EnterOn(Cases[cid]) /\ UNCHANGED cid
Leave == LeaveOn(Cases[cid]) /\ UNCHANGED cid
Finish == LET cs == Cases[cid] IN
    /\ ReturnOn(cs) /\ UNCHANGED cid
    /\ PrintT(ToJson([id |-> cs.id, st |-> IF fails' = <<>> THEN "ok" ELSE "fail", fails |-> fails', depth |-> Len(stack)]))

Next == Enter \/ Leave \/ Finish
Spec == Init /\ [][Next]_vars
=============================================================================
