-------------------------------- MODULE Sem --------------------------------
(***************************************************************************)
(* Semantics of construct classes: Parse (P), Build (B), Sizeof (Z).       *)
(*                                                                         *)
(* Direct style: a result is [ok, v, s, c, ev, err] -- status, value,      *)
(* the node's own stream afterwards, the context afterwards, the boundary  *)
(* events produced (enter/leave of every construct touched, in order), and *)
(* the error class when ~ok.  One CASE arm per class, in the order of      *)
(* construct/core.py.  The CAM (CAM.tla) consumes `ev` one event per step. *)
(*                                                                         *)
(* Error classes are the library's exception class names; anything that is *)
(* not a ConstructError subclass is "foreign" behaviour of today's code    *)
(* (KeyError, TypeError, ValueError ...) and is kept under its own name.   *)
(* "OutOfModel" marks a case the specification does not define.            *)
(***************************************************************************)
EXTENDS Streams, Expr

ROk(v, s, c, ev)    == [ok |-> TRUE,  v |-> v,     s |-> s, c |-> c, ev |-> ev, err |-> ""]
RErr(cls, s, c, ev) == [ok |-> FALSE, v |-> VNone, s |-> s, c |-> c, ev |-> ev, err |-> cls]
\* sequencing: run F on a successful result, concatenating events
Then(r, F(_)) == IF ~r.ok THEN r ELSE LET q == F(r) IN [q EXCEPT !.ev = r.ev \o @]

ConstructErrors == {"ConstructError", "SizeofError", "AdaptationError", "ValidationError", "StreamError",
    "FormatFieldError", "IntegerError", "StringError", "MappingError", "RangeError", "RepeatError",
    "ConstError", "IndexFieldError", "CheckError", "ExplicitError", "NamedTupleError", "TimestampError",
    "UnionError", "SelectError", "SwitchError", "StopFieldError", "PaddingError", "TerminatedError",
    "RawCopyError", "RotationError", "ChecksumError", "CancelParsing", "CipherError"}
IsConstructError(cls) == cls \in ConstructErrors

---------------------------------------------------------------------------
\* events
\* nm: the member name when the node is a Renamed (it is what error paths are made of); path: only recorded events carry one
EvIn(k, nm, op, p, a)  == [e |-> "in",  k |-> k, nm |-> nm, op |-> op, p |-> p, ok |-> TRUE, v |-> a, err |-> "", path |-> <<>>]
EvOut(k, nm, op, p, r) == [e |-> "out", k |-> k, nm |-> nm, op |-> op, p |-> p, ok |-> r.ok, v |-> r.v, err |-> r.err, path |-> <<>>]
NmOf(n) == IF n.k = "Renamed" THEN n.name ELSE ""
Wrap(n, op, s0, a, r) ==
    [r EXCEPT !.ev = <<EvIn(n.k, NmOf(n), op, Tell(s0), a)>> \o @ \o <<EvOut(n.k, NmOf(n), op, Tell(r.s), r)>>]

---------------------------------------------------------------------------
\* wrapped stream helpers (construct.core.stream_read ...): every failure is StreamError
SRead(s, c, n) ==
    IF n < 0 THEN RErr("StreamError", s, c, <<>>)
    ELSE LET d == RawRead(s, n) IN
         IF ~d.ok \/ Len(d.v) # n THEN RErr("StreamError", d.s, c, <<>>)
         ELSE ROk(VBytes(d.v), d.s, c, <<>>)
SReadAll(s, c) ==
    LET d == RawReadAll(s) IN
    IF ~d.ok THEN RErr("StreamError", d.s, c, <<>>) ELSE ROk(VBytes(d.v), d.s, c, <<>>)
\* stream_write(stream, data, length): data is a value
SWrite(s, c, data, n) ==
    IF data.t # "bytes" THEN RErr("StringError", s, c, <<>>)
    ELSE IF n < 0 \/ Len(data.b) # n THEN RErr("StreamError", s, c, <<>>)
    ELSE LET w == RawWrite(s, data.b) IN
         IF ~w.ok \/ w.v # n THEN RErr("StreamError", w.s, c, <<>>) ELSE ROk(VNone, w.s, c, <<>>)
SSeek(s, c, off, whence) ==
    LET k == RawSeek(s, off, whence) IN
    IF ~k.ok THEN RErr("StreamError", k.s, c, <<>>) ELSE ROk(IF k.v < 0 THEN VNone ELSE VInt(k.v), k.s, c, <<>>)
STell(s, c) ==
    LET t == RawTell(s) IN
    IF ~t.ok THEN RErr("StreamError", t.s, c, <<>>) ELSE ROk(t.v, t.s, c, <<>>)     \* v: native integer

---------------------------------------------------------------------------
\* context
Cur(c) == c.fr[Len(c.fr)]
SetCur(c, key, val) == [c EXCEPT !.fr[Len(c.fr)] = DSet(@, key, val)]
Push(c) == LET f == Cur(c) IN
    [c EXCEPT !.fr = Append(@, VDict(<<"_index">>, <<IF DHas(f, "_index") THEN DGet(f, "_index") ELSE VNone>>))]
Pop(c) == [c EXCEPT !.fr = Front(@)]
TopCtx(kw, mode) == [fr |-> <<kw>>, p |-> 1, mode |-> mode, defs |-> <<>>]
\* recursive definitions (LazyBound): Rec binds a name to its body for everything below it; the binding is not a construct (no events)
WithDef(c, name, node) == [c EXCEPT !.defs = <<[name |-> name, node |-> node]>> \o @]
HasDef(c, name) == \E i \in 1..Len(c.defs) : c.defs[i].name = name
DefOf(c, name) == c.defs[CHOOSE i \in 1..Len(c.defs) : c.defs[i].name = name /\ \A j \in 1..(i - 1) : c.defs[j].name # name].node
\* Python indexing and slicing of a list of length len (1-based results; 0 = IndexError)
PyIndex(i, len) == IF i >= 0 THEN (IF i < len THEN i + 1 ELSE 0) ELSE (IF len + i >= 0 THEN len + i + 1 ELSE 0)
\* bounds of lst[start:stop] for start, stop none or >= 0: first index (1-based) and one past the last
SlLo(start, len) == IF start.t = "none" THEN 1 ELSE Min(AsInt(start), len) + 1
SlHi(stop, len) == IF stop.t = "none" THEN len + 1 ELSE Min(AsInt(stop), len) + 1
SlIdx(start, stop, step, len) == LET lo == SlLo(start, len)  hi == SlHi(stop, len) IN
    IF hi <= lo THEN <<>> ELSE [j \in 1..(((hi - lo - 1) \div step) + 1) |-> lo + (j - 1) * step]
SliceModelled(n) == n.step >= 1 /\ (n.start.t = "none" \/ (n.start.t = "int" /\ ~n.start.neg)) /\ (n.stop.t = "none" \/ (n.stop.t = "int" /\ ~n.stop.neg))
PublicOf(d) == LET idx == SelectSeq([i \in 1..Len(d.k) |-> i], LAMBDA i : ~IsPrivateKey(d.k[i])) IN
    VDict([j \in 1..Len(idx) |-> d.k[idx[j]]], [j \in 1..Len(idx) |-> d.v[idx[j]]])

\* evaluate a parameter; foreign exceptions of the expression propagate under their own name
EvalR(e, s, c) == LET r == EvalCtx(e, c) IN IF r.ok THEN ROk(r.v, s, c, <<>>) ELSE RErr(r.err, s, c, <<>>)
\* a parameter that the code uses as an integer; v is a native integer (saturated)
IntParam(e, s, c) ==
    LET r == EvalCtx(e, c) IN
    IF ~r.ok THEN RErr(r.err, s, c, <<>>)
    ELSE IF ~IsIntLike(r.v) THEN RErr(IF r.v.t \in {"opaque", "frame", "rat"} THEN OutOfModel ELSE "TypeError", s, c, <<>>)
    ELSE ROk(AsInt(ToIntV(r.v)), s, c, <<>>)
\* sizeof-style evaluation: KeyError / AttributeError become SizeofError
Sz(r) == IF ~r.ok /\ r.err \in {"KeyError", "AttributeError"} THEN [r EXCEPT !.err = "SizeofError"] ELSE r

---------------------------------------------------------------------------
\* static attributes of a program
NameOf(n) == IF n.k = "Renamed" THEN n.name ELSE ""
NameCps(n) == IF n.k = "Renamed" THEN n.ncp ELSE <<>>
FmtSize(fc) == CASE fc \in {"B", "b", "?"} -> 1 [] fc \in {"H", "h", "e"} -> 2
                 [] fc \in {"L", "l", "f"} -> 4 [] fc \in {"Q", "q", "d"} -> 8
FmtSigned(fc) == fc \in {"b", "h", "l", "q"}
FmtIsInt(fc) == fc \in {"B", "b", "H", "h", "L", "l", "Q", "q"}
FmtLittle(en) == en # ">"           \* "=" is native order; the reference machine is little endian

\* fixed-width aliases (Int8ub ... Float64n, Byte ... Double, Int24*, Bit/Nibble/Octet)
CInt(i) == [x |-> "const", v |-> VInt(i)]
CBool(b) == [x |-> "const", v |-> VBool(b)]
FF(en, fc) == [k |-> "FormatField", en |-> en, fc |-> fc]
BI(len, signed, swapped) == [k |-> "BytesInteger", len |-> CInt(len), signed |-> signed, swapped |-> CBool(swapped)]
BitsI(len) == [k |-> "BitsInteger", len |-> CInt(len), signed |-> FALSE, swapped |-> CBool(FALSE)]
AliasTable ==
    [ Int8ub |-> FF(">", "B"), Int16ub |-> FF(">", "H"), Int32ub |-> FF(">", "L"), Int64ub |-> FF(">", "Q"),
      Int8sb |-> FF(">", "b"), Int16sb |-> FF(">", "h"), Int32sb |-> FF(">", "l"), Int64sb |-> FF(">", "q"),
      Int8ul |-> FF("<", "B"), Int16ul |-> FF("<", "H"), Int32ul |-> FF("<", "L"), Int64ul |-> FF("<", "Q"),
      Int8sl |-> FF("<", "b"), Int16sl |-> FF("<", "h"), Int32sl |-> FF("<", "l"), Int64sl |-> FF("<", "q"),
      Int8un |-> FF("=", "B"), Int16un |-> FF("=", "H"), Int32un |-> FF("=", "L"), Int64un |-> FF("=", "Q"),
      Int8sn |-> FF("=", "b"), Int16sn |-> FF("=", "h"), Int32sn |-> FF("=", "l"), Int64sn |-> FF("=", "q"),
      Byte |-> FF(">", "B"), Short |-> FF(">", "H"), Int |-> FF(">", "L"), Long |-> FF(">", "Q"),
      Float16b |-> FF(">", "e"), Float16l |-> FF("<", "e"), Float16n |-> FF("=", "e"),
      Float32b |-> FF(">", "f"), Float32l |-> FF("<", "f"), Float32n |-> FF("=", "f"),
      Float64b |-> FF(">", "d"), Float64l |-> FF("<", "d"), Float64n |-> FF("=", "d"),
      Half |-> FF(">", "e"), Single |-> FF(">", "f"), Double |-> FF(">", "d"),
      Int24ub |-> BI(3, FALSE, FALSE), Int24ul |-> BI(3, FALSE, TRUE), Int24un |-> BI(3, FALSE, TRUE),
      Int24sb |-> BI(3, TRUE, FALSE), Int24sl |-> BI(3, TRUE, TRUE), Int24sn |-> BI(3, TRUE, TRUE),
      Bit |-> BitsI(1), Nibble |-> BitsI(4), Octet |-> BitsI(8) ]

PassN == [k |-> "Pass"]
GreedyBytesN == [k |-> "GreedyBytes"]
CStrV(s) == [x |-> "const", v |-> VStr(s)]        \* s: code points
ThisItem(n) == [x |-> "item", o |-> [x |-> "this"], n |-> n]

RECURSIVE FBN(_), Z(_, _), ZLoop(_, _, _, _, _), Expand(_)

(***************************************************************************)
(* Macros: factories that only compose classes.  Expand gives what each is *)
(* documented to build; the harness builds the real object through the     *)
(* real factory, so the two trees meet in the event trace.                 *)
(***************************************************************************)
IsMacro(n) == n.k \in {"Alias", "PaddedString", "PascalString", "CString", "GreedyString", "Optional", "If",
                       "Padding", "PrefixedArray", "BitStruct", "AlignedStruct", "Bitwise", "Bytewise",
                       "ByteSwapped", "BitsSwapped", "OneOf", "NoneOf"}
UnitBytes(enc) == Rep(0, EncUnit(enc))
EmptyCtx == TopCtx(VEmptyDict, "sizeof")
Expand(n) ==
    CASE n.k = "Alias" -> AliasTable[n.name]
      [] n.k = "PaddedString" ->
            [k |-> "StringEncoded", enc |-> n.enc, sub |->
                [k |-> "FixedSized", len |-> n.len, sub |->
                    [k |-> "NullStripped", pad |-> UnitBytes(n.enc), sub |-> GreedyBytesN]]]
      [] n.k = "PascalString" ->
            [k |-> "StringEncoded", enc |-> n.enc, sub |->
                [k |-> "Prefixed", lenf |-> n.lenf, incl |-> FALSE, sub |-> GreedyBytesN]]
      [] n.k = "CString" ->
            [k |-> "StringEncoded", enc |-> n.enc, sub |->
                [k |-> "NullTerminated", term |-> UnitBytes(n.enc), include |-> FALSE, consume |-> TRUE,
                 require |-> TRUE, sub |-> GreedyBytesN]]
      [] n.k = "GreedyString" -> [k |-> "StringEncoded", enc |-> n.enc, sub |-> GreedyBytesN]
      [] n.k = "Optional" -> [k |-> "Select", subs |-> <<n.sub, PassN>>]
      [] n.k = "If" -> [k |-> "IfThenElse", cond |-> n.cond, then |-> n.sub, else |-> PassN]
      [] n.k = "Padding" -> [k |-> "Padded", len |-> n.len, pat |-> n.pat, sub |-> PassN]
      [] n.k = "PrefixedArray" ->
            [k |-> "FocusedSeq", sel |-> CStrV(<<105, 116, 101, 109, 115>>), subs |-> <<
                [k |-> "Renamed", name |-> "count", ncp |-> <<99, 111, 117, 110, 116>>, sub |->
                    [k |-> "Rebuild", sub |-> n.cf, f |-> [x |-> "func", f |-> "len", a |-> ThisItem("items")]]],
                [k |-> "Renamed", name |-> "items", ncp |-> <<105, 116, 101, 109, 115>>, sub |->
                    [k |-> "Array", count |-> ThisItem("count"), discard |-> FALSE, sub |-> n.sub]] >>]
      [] n.k = "BitStruct" -> Expand([k |-> "Bitwise", sub |-> [k |-> "Struct", subs |-> n.subs]])
      [] n.k = "AlignedStruct" ->
            [k |-> "Struct", subs |-> [i \in 1..Len(n.subs) |->
                [k |-> "Renamed", name |-> NameOf(n.subs[i]), ncp |-> NameCps(n.subs[i]), sub |->
                    [k |-> "Aligned", mod |-> n.mod, pat |-> 0, sub |-> n.subs[i]]]]]
      [] n.k = "Bitwise" ->
            LET z == Z(n.sub, EmptyCtx) IN
            IF z.ok THEN [k |-> "Transformed", sub |-> n.sub, dec |-> "bytes2bits", damt |-> FloorDiv(z.v, 8),
                          enc |-> "bits2bytes", eamt |-> FloorDiv(z.v, 8)]
            ELSE IF z.err = "SizeofError" THEN
                 [k |-> "Restreamed", sub |-> n.sub, dec |-> "bytes2bits", dunit |-> 1, enc |-> "bits2bytes",
                  eunit |-> 8, sizec |-> "div8"]
            ELSE [k |-> "Invalid", err |-> z.err]
      [] n.k = "Bytewise" ->
            LET z == Z(n.sub, EmptyCtx) IN
            IF z.ok THEN [k |-> "Transformed", sub |-> n.sub, dec |-> "bits2bytes", damt |-> z.v * 8,
                          enc |-> "bytes2bits", eamt |-> z.v * 8]
            ELSE IF z.err = "SizeofError" THEN
                 [k |-> "Restreamed", sub |-> n.sub, dec |-> "bits2bytes", dunit |-> 8, enc |-> "bytes2bits",
                  eunit |-> 1, sizec |-> "mul8"]
            ELSE [k |-> "Invalid", err |-> z.err]
      [] n.k = "ByteSwapped" ->
            LET z == Z(n.sub, EmptyCtx) IN
            IF z.ok THEN [k |-> "Transformed", sub |-> n.sub, dec |-> "swapbytes", damt |-> z.v,
                          enc |-> "swapbytes", eamt |-> z.v]
            ELSE [k |-> "Invalid", err |-> z.err]
      [] n.k = "BitsSwapped" ->
            LET z == Z(n.sub, EmptyCtx) IN
            IF z.ok THEN [k |-> "Transformed", sub |-> n.sub, dec |-> "swapbitsinbytes", damt |-> z.v,
                          enc |-> "swapbitsinbytes", eamt |-> z.v]
            ELSE IF z.err = "SizeofError" THEN
                 [k |-> "Restreamed", sub |-> n.sub, dec |-> "swapbitsinbytes", dunit |-> 1,
                  enc |-> "swapbitsinbytes", eunit |-> 1, sizec |-> "id"]
            ELSE [k |-> "Invalid", err |-> z.err]
      [] n.k = "OneOf"  -> [k |-> "ExprValidator", sub |-> n.sub, mode |-> "oneof", vals |-> n.vals]
      [] n.k = "NoneOf" -> [k |-> "ExprValidator", sub |-> n.sub, mode |-> "noneof", vals |-> n.vals]
      [] OTHER -> n

\* flagbuildnone: may this construct be built from None (consulted by Struct, Union, RawCopy)
RECURSIVE AllFBN(_, _), AnyFBN(_, _)
AllFBN(subs, i) == IF i > Len(subs) THEN TRUE ELSE FBN(subs[i]) /\ AllFBN(subs, i + 1)
AnyFBN(subs, i) == IF i > Len(subs) THEN FALSE ELSE FBN(subs[i]) \/ AnyFBN(subs, i + 1)
FBN(n) ==
    CASE IsMacro(n) -> FBN(Expand(n))
      [] n.k \in {"Const", "Computed", "Index", "Rebuild", "Default", "Check", "Error", "Peek", "Seek", "Tell",
                  "Pass", "Terminated", "StopIf", "RestreamData", "Checksum"} -> TRUE
      [] n.k \in {"Struct", "Sequence", "LazyStruct"} -> AllFBN(n.subs, 1)
      [] n.k = "Select" -> AnyFBN(n.subs, 1)
      [] n.k = "IfThenElse" -> FBN(n.then) /\ FBN(n.else)
      [] n.k = "Switch" -> AllFBN(n.cv, 1) /\ FBN(n.default)
      [] n.k \in {"FocusedSeq", "Union"} -> FALSE
      [] "sub" \in DOMAIN n -> FBN(n.sub)
      [] OTHER -> FALSE

(***************************************************************************)
(* Sizeof.  Result v is a native integer.                                   *)
(***************************************************************************)
ZOk(v, ev)    == ROk(v, Mem(<<>>, 0, 0), EmptyCtx, ev)
ZErr(cls, ev) == RErr(cls, Mem(<<>>, 0, 0), EmptyCtx, ev)
ZWrap(n, r) == [r EXCEPT !.ev = <<EvIn(n.k, NmOf(n), "sizeof", 0, VNone)>> \o @
                                \o <<EvOut(n.k, NmOf(n), "sizeof", 0, [r EXCEPT !.v = IF r.ok THEN VInt(r.v) ELSE VNone])>>]
ZInt(e, c) == Sz(IntParam(e, Mem(<<>>, 0, 0), c))
ZB(n, c) ==
    CASE n.k \in {"Bytes", "BytesInteger", "BitsInteger"} -> ZInt(n.len, c)
      [] n.k = "FormatField" -> ZOk(FmtSize(n.fc), <<>>)
      [] n.k \in {"GreedyBytes", "VarInt", "ZigZag", "GreedyRange", "RepeatUntil", "Union", "Select",
                  "StopIf", "Error", "Seek", "Terminated", "OffsettedEnd", "NullTerminated", "NullStripped",
                  "Compressed", "Pickled", "LazyBound"} -> ZErr("SizeofError", <<>>)
      [] n.k = "Flag" -> ZOk(1, <<>>)
      [] n.k \in {"Computed", "Index", "Check", "Pass", "Tell", "Pointer", "Peek", "RestreamData"} -> ZOk(0, <<>>)
      [] n.k \in {"Struct", "Sequence", "FocusedSeq", "LazyStruct"} ->
            LET r == ZLoop(n.subs, 1, Push(c), 0, <<>>) IN
            IF ~r.ok /\ r.err \in {"KeyError", "AttributeError"} THEN [r EXCEPT !.err = "SizeofError"] ELSE r
      [] n.k \in {"Array", "LazyArray"} ->
            LET cnt == ZInt(n.count, c) IN
            IF ~cnt.ok THEN cnt
            ELSE LET z == Z(n.sub, c) IN
                 IF ~z.ok THEN z
                 ELSE IF Abs(cnt.v) >= Lim \/ Abs(z.v) >= Lim THEN ZErr(OutOfModel, z.ev) ELSE ZOk(cnt.v * z.v, z.ev)
      [] n.k = "IfThenElse" ->
            LET cnd == EvalCtx(n.cond, c) IN
            IF ~cnd.ok THEN Sz(ZErr(cnd.err, <<>>))
            ELSE Sz(Z(IF Truthy(cnd.v) THEN n.then ELSE n.else, c))
      [] n.k = "Switch" ->
            LET key == EvalCtx(n.key, c) IN
            IF ~key.ok THEN Sz(ZErr(key.err, <<>>))
            ELSE LET i == CHOOSE i \in 0..Len(n.ck) : IF i = 0 THEN \A j \in 1..Len(n.ck) : ~PyEq(n.ck[j], key.v)
                                                       ELSE PyEq(n.ck[i], key.v) /\ \A j \in 1..(i-1) : ~PyEq(n.ck[j], key.v)
                 IN Sz(Z(IF i = 0 THEN n.default ELSE n.cv[i], c))
      [] n.k = "Padded" ->
            LET L == ZInt(n.len, c) IN
            IF ~L.ok THEN L ELSE IF L.v < 0 THEN ZErr("PaddingError", <<>>) ELSE ZOk(L.v, <<>>)
      [] n.k = "Aligned" ->
            LET m == ZInt(n.mod, c) IN
            IF ~m.ok THEN m ELSE IF m.v < 2 THEN ZErr("PaddingError", <<>>)
            ELSE LET z == Sz(Z(n.sub, c)) IN
                 IF ~z.ok THEN z ELSE ZOk(z.v + PyMod(-z.v, m.v), z.ev)
      [] n.k = "Prefixed" ->
            LET a == Z(n.lenf, c) IN IF ~a.ok THEN a ELSE
            LET b == Z(n.sub, c) IN IF ~b.ok THEN [b EXCEPT !.ev = a.ev \o @] ELSE ZOk(a.v + b.v, a.ev \o b.ev)
      [] n.k = "FixedSized" ->
            LET L == ZInt(n.len, c) IN
            IF ~L.ok THEN L ELSE IF L.v < 0 THEN ZErr("PaddingError", <<>>) ELSE ZOk(L.v, <<>>)
      [] n.k = "Transformed" ->
            IF n.damt < 0 \/ n.eamt < 0 THEN ZErr("SizeofError", <<>>)
            ELSE IF n.damt = n.eamt THEN ZOk(n.eamt, <<>>) ELSE ZErr("SizeofError", <<>>)
      [] n.k = "Restreamed" ->
            IF n.sizec = "none" THEN ZErr("SizeofError", <<>>)
            ELSE LET z == Z(n.sub, c) IN
                 IF ~z.ok THEN z
                 ELSE ZOk(CASE n.sizec = "div8" -> FloorDiv(z.v, 8) [] n.sizec = "mul8" -> z.v * 8 [] OTHER -> z.v, z.ev)
      [] n.k = "Checksum" -> Z(n.field, c)
      [] n.k = "Invalid" -> ZErr(n.err, <<>>)
      [] "sub" \in DOMAIN n -> Z(n.sub, c)       \* Subconstruct default (Renamed, Const, adapters, RawCopy, Process*, Lazy ...)
      [] OTHER -> ZErr(OutOfModel, <<>>)
Z(n, c) == IF IsMacro(n) THEN Z(Expand(n), c) ELSE IF n.k = "Rec" THEN Z(n.sub, WithDef(c, n.name, n.sub)) ELSE ZWrap(n, ZB(n, c))
ZLoop(subs, i, c, acc, ev) ==
    IF i > Len(subs) THEN ZOk(acc, ev)
    ELSE LET z == Z(subs[i], c) IN
         IF ~z.ok THEN [z EXCEPT !.ev = ev \o @] ELSE ZLoop(subs, i + 1, c, acc + z.v, ev \o z.ev)

\* a sizeof call made from inside parse/build (Prefixed includelength, Hex): its events join the trace
ZIn(n, s, c) == LET z == Z(n, c) IN [z EXCEPT !.s = s, !.c = c]

(***************************************************************************)
(* Parse                                                                    *)
(***************************************************************************)
RECURSIVE P(_, _, _), PB(_, _, _), PStructLoop(_, _, _, _, _, _), PSeqLoop(_, _, _, _, _, _), PLazyLoop(_, _, _, _, _, _), PLazyArrLoop(_, _, _, _, _, _, _), ActualSz(_, _, _),
          PArrayLoop(_, _, _, _, _, _, _), PGreedyLoop(_, _, _, _, _, _), PRepeatLoop(_, _, _, _, _, _),
          PSelectLoop(_, _, _, _, _), PUnionLoop(_, _, _, _, _, _, _, _), PFocusedLoop(_, _, _, _, _, _, _, _),
          NTScan(_, _, _, _, _)
Fuel == 40          \* iterations after which a repeater is declared divergent (GreedyRange(Pass) ...)

P(n, s, c) == IF IsMacro(n) THEN P(Expand(n), s, c)
              ELSE IF n.k = "Rec" THEN P(n.sub, s, WithDef(c, n.name, n.sub))
              ELSE Wrap(n, "parse", s, VNone, PB(n, s, c))

\* index of the Switch case selected by key (0 = default)
SwitchIdx(n, key) == CHOOSE i \in 0..Len(n.ck) :
    IF i = 0 THEN \A j \in 1..Len(n.ck) : ~PyEq(n.ck[j], key)
    ELSE PyEq(n.ck[i], key) /\ \A j \in 1..(i - 1) : ~PyEq(n.ck[j], key)

\* Mapping / Enum table lookups: last entry wins for duplicate keys (dict construction)
LookupLast(keys, vals, x) == LET S == {i \in 1..Len(keys) : PyEq(keys[i], x)} IN
    IF S = {} THEN [ok |-> FALSE, v |-> VNone] ELSE [ok |-> TRUE, v |-> vals[CHOOSE i \in S : \A j \in S : j <= i]]
EnumStr(name, val) == [t |-> "enumstr", s |-> name, i |-> val]     \* EnumIntegerString: a str that knows its integer
Hashable(v) == v.t \notin {"list", "dict"}

\* FlagsEnum decode: name -> (value & flag == flag), on magnitudes of any size via bit strings
BitAndEq(v, f) == \* (v & f) == f for non-negative v, f
    LET a == MagBits(v)  b == MagBits(f)
        w == Max(Len(a), Len(b))
        pa == PadLeft(a, w)  pb == PadLeft(b, w)
    IN \A i \in 1..w : pb[i] = 1 => pa[i] = 1
BitOrMag(a, b) == \* magnitudes as byte strings
    LET w == Max(Len(a), Len(b))  pa == PadLeft(a, w)  pb == PadLeft(b, w)
    IN [i \in 1..w |-> BitsByte([j \in 1..8 |-> IF ByteBits(pa[i])[j] = 1 \/ ByteBits(pb[i])[j] = 1 THEN 1 ELSE 0])]

\* Construct._actualsize: the size of a member found at the stream position, without parsing it where possible.  Prefixed and
\* PrefixedArray read their length / count field (below the recorded boundary); every other class answers with its sizeof.
\* Result: v = native size, s = the stream afterwards.
ActualSz(m, s, c) ==
    IF m.k = "Prefixed" THEN
        Then(STell(s, c), LAMBDA p1 :
        LET L0 == P(m.lenf, p1.s, p1.c)  L == [L0 EXCEPT !.ev = <<>>] IN
        Then(L, LAMBDA l :
            IF ~IsIntLike(l.v) THEN RErr(IF l.v.t = "opaque" THEN OutOfModel ELSE "TypeError", l.s, l.c, <<>>)
            ELSE LET z0 == IF m.incl THEN ZIn(m.lenf, l.s, l.c) ELSE ROk(0, l.s, l.c, <<>>)  z == [z0 EXCEPT !.ev = <<>>] IN
                 Then(z, LAMBDA zz :
                 Then(STell(zz.s, zz.c), LAMBDA p2 : ROk((p2.v - p1.v) + AsInt(ToIntV(l.v)) - zz.v, p2.s, p2.c, <<>>)))))
    ELSE IF m.k = "PrefixedArray" THEN
        Then(STell(s, c), LAMBDA p1 :
        LET L0 == P(m.cf, p1.s, p1.c)  L == [L0 EXCEPT !.ev = <<>>] IN
        Then(L, LAMBDA l :
            IF ~IsIntLike(l.v) THEN RErr(IF l.v.t = "opaque" THEN OutOfModel ELSE "TypeError", l.s, l.c, <<>>)
            ELSE LET z0 == ZIn(m.sub, l.s, l.c)  z == [z0 EXCEPT !.ev = <<>>] IN
                 Then(z, LAMBDA zz :
                 Then(STell(zz.s, zz.c), LAMBDA p2 : ROk((p2.v - p1.v) + AsInt(ToIntV(l.v)) * zz.v, p2.s, p2.c, <<>>)))))
    ELSE ZIn(m, s, c)

PB(n, s, c) ==
    CASE n.k = "Bytes" ->
            Then(IntParam(n.len, s, c), LAMBDA L : SRead(L.s, L.c, L.v))
      [] n.k = "GreedyBytes" -> SReadAll(s, c)
      [] n.k = "FormatField" ->
            Then(SRead(s, c, FmtSize(n.fc)), LAMBDA d :
                LET be == IF FmtLittle(n.en) THEN Rev(d.v.b) ELSE d.v.b IN
                ROk(IF FmtIsInt(n.fc) THEN BytesToInt(be, FmtSigned(n.fc))
                    ELSE IF n.fc = "?" THEN VBool(be[1] # 0)
                    ELSE VFloat(FloatUnpack(be, n.fc)), d.s, d.c, <<>>))
      [] n.k = "BytesInteger" ->
            Then(IntParam(n.len, s, c), LAMBDA L :
                IF L.v <= 0 THEN RErr("IntegerError", L.s, L.c, <<>>)
                ELSE Then(SRead(L.s, L.c, L.v), LAMBDA d :
                     Then(EvalR(n.swapped, d.s, d.c), LAMBDA sw :
                        ROk(BytesToInt(IF Truthy(sw.v) THEN Rev(d.v.b) ELSE d.v.b, n.signed), sw.s, sw.c, <<>>))))
      [] n.k = "BitsInteger" ->
            Then(IntParam(n.len, s, c), LAMBDA L :
                IF L.v <= 0 THEN RErr("IntegerError", L.s, L.c, <<>>)
                ELSE Then(SRead(L.s, L.c, L.v), LAMBDA d :
                     Then(EvalR(n.swapped, d.s, d.c), LAMBDA sw :
                        IF \E i \in 1..Len(d.v.b) : d.v.b[i] > 1 THEN RErr(OutOfModel, sw.s, sw.c, <<>>)
                        ELSE IF Truthy(sw.v) /\ L.v % 8 # 0 THEN RErr("IntegerError", sw.s, sw.c, <<>>)
                        ELSE ROk(BitsToInt(IF Truthy(sw.v) THEN SwapBytesInBits(d.v.b) ELSE d.v.b, n.signed), sw.s, sw.c, <<>>))))
      [] n.k = "VarInt" ->
            IF s.kind # "mem" THEN RErr(OutOfModel, s, c, <<>>)
            ELSE LET e == VarIntEnd(s.data, s.pos + 1) IN
                 IF e = 0 \/ s.flt.k # 0 THEN
                      (IF s.flt.k # 0 THEN RErr(OutOfModel, s, c, <<>>)
                       ELSE RErr("StreamError", [s EXCEPT !.pos = Max(s.pos, Len(s.data)), !.ops = @ + (Max(s.pos, Len(s.data)) - s.pos) + 1], c, <<>>))
                 ELSE ROk(VarIntDecode(SubSeq(s.data, s.pos + 1, e)), [s EXCEPT !.pos = e, !.ops = @ + (e - s.pos)], c, <<>>)
      [] n.k = "ZigZag" ->
            \* calls VarInt._parse on the VarInt singleton, which is not a member of the program: no event of its own
            LET r == PB([k |-> "VarInt"], s, c) IN
            IF ~r.ok THEN r ELSE [r EXCEPT !.v = ZigZagUnfold(r.v)]
      [] n.k = "StringEncoded" ->
            Then(P(n.sub, s, c), LAMBDA r :
                IF r.v.t # "bytes" THEN RErr(IF r.v.t = "opaque" THEN OutOfModel ELSE "StringError", r.s, r.c, <<>>)
                ELSE LET d == StrDecode(r.v.b, n.enc) IN
                     IF d.ok THEN ROk(VStr(d.v), r.s, r.c, <<>>) ELSE RErr("StringError", r.s, r.c, <<>>))
      [] n.k = "Flag" -> Then(SRead(s, c, 1), LAMBDA d : ROk(VBool(d.v.b # <<0>>), d.s, d.c, <<>>))
      [] n.k = "Enum" ->
            Then(P(n.sub, s, c), LAMBDA r :
                IF ~Hashable(r.v) THEN RErr("TypeError", r.s, r.c, <<>>)
                ELSE LET hit == LookupLast(n.vals, n.names, r.v) IN
                     ROk(IF hit.ok THEN EnumStr(hit.v, r.v) ELSE r.v, r.s, r.c, <<>>))
      [] n.k = "FlagsEnum" ->
            Then(P(n.sub, s, c), LAMBDA r :
                IF ~IsIntLike(r.v) THEN RErr(IF r.v.t = "opaque" THEN OutOfModel ELSE "TypeError", r.s, r.c, <<>>)
                ELSE LET v == ToIntV(r.v) IN
                     IF v.neg \/ (\E i \in 1..Len(n.vals) : n.vals[i].neg) THEN RErr(OutOfModel, r.s, r.c, <<>>)
                     ELSE ROk([t |-> "dict", k |-> n.names,
                               v |-> [i \in 1..Len(n.names) |-> VBool(BitAndEq(v, n.vals[i]))]], r.s, r.c, <<>>))
      [] n.k = "Mapping" ->
            Then(P(n.sub, s, c), LAMBDA r :
                IF ~Hashable(r.v) THEN RErr("MappingError", r.s, r.c, <<>>)
                ELSE LET hit == LookupLast(n.mv, n.mk, r.v) IN
                     IF hit.ok THEN ROk(hit.v, r.s, r.c, <<>>) ELSE RErr("MappingError", r.s, r.c, <<>>))
      [] n.k = "Struct" ->
            LET r == PStructLoop(n.subs, 1, s, Push(c), VEmptyDict, <<>>) IN [r EXCEPT !.c = Pop(@)]
      [] n.k = "LazyArray" ->    \* elements are skipped by their size where it can be told, parsed otherwise (no _index: the elements are not run)
            Then(IntParam(n.count, s, c), LAMBDA cnt :
                IF cnt.v < 0 THEN RErr("RangeError", cnt.s, cnt.c, <<>>)
                ELSE Then(STell(cnt.s, cnt.c), LAMBDA o : PLazyArrLoop(n.sub, 0, cnt.v, o.s, o.c, o.v, <<>>)))
      [] n.k = "LazyStruct" ->   \* members are skipped by their size where it can be told, parsed (and entered in the context) otherwise
            Then(STell(s, c), LAMBDA o :
                LET r == PLazyLoop(n.subs, 1, o.s, Push(o.c), o.v, <<>>) IN [r EXCEPT !.c = Pop(@)])
      [] n.k = "Sequence" ->
            LET r == PSeqLoop(n.subs, 1, s, Push(c), <<>>, <<>>) IN [r EXCEPT !.c = Pop(@)]
      [] n.k = "Array" ->
            Then(IntParam(n.count, s, c), LAMBDA cnt :
                IF cnt.v < 0 THEN RErr("RangeError", cnt.s, cnt.c, <<>>)
                ELSE PArrayLoop(n, 0, cnt.v, cnt.s, cnt.c, <<>>, <<>>))
      [] n.k = "GreedyRange" -> PGreedyLoop(n, 0, s, c, <<>>, <<>>)
      [] n.k = "RepeatUntil" -> PRepeatLoop(n, 0, s, c, <<>>, <<>>)
      [] n.k = "Renamed" -> P(n.sub, s, c)
      [] n.k = "Const" ->
            Then(P(n.sub, s, c), LAMBDA r :
                IF PyEq(r.v, n.val) THEN ROk(r.v, r.s, r.c, <<>>) ELSE RErr("ConstError", r.s, r.c, <<>>))
      [] n.k = "Computed" -> EvalR(n.f, s, c)
      [] n.k = "Index" -> ROk(IF DHas(Cur(c), "_index") THEN DGet(Cur(c), "_index") ELSE VNone, s, c, <<>>)
      [] n.k \in {"Rebuild", "Default"} -> P(n.sub, s, c)
      [] n.k = "Check" ->
            Then(EvalR(n.f, s, c), LAMBDA r :
                IF r.v.t \in {"frame", "opaque"} THEN RErr(OutOfModel, r.s, r.c, <<>>)
                ELSE IF Truthy(r.v) THEN ROk(VNone, r.s, r.c, <<>>) ELSE RErr("CheckError", r.s, r.c, <<>>))
      [] n.k = "Error" -> RErr("ExplicitError", s, c, <<>>)
      [] n.k = "FocusedSeq" ->
            LET c1 == Push(c)
                sel == EvalCtx(n.sel, c1)
            IN IF ~sel.ok THEN RErr(sel.err, s, c, <<>>)
               ELSE LET r == PFocusedLoop(n.subs, 1, s, c1, sel.v, FALSE, VNone, <<>>) IN [r EXCEPT !.c = Pop(@)]
      [] n.k = "Union" ->
            Then(STell(s, Push(c)), LAMBDA t :
                LET r == PUnionLoop(n, 1, t.v, t.s, t.c, VEmptyDict, <<>>, <<>>) IN [r EXCEPT !.c = Pop(@)])
      [] n.k = "Select" -> PSelectLoop(n.subs, 1, s, c, <<>>)
      [] n.k = "IfThenElse" ->
            Then(EvalR(n.cond, s, c), LAMBDA r :
                IF r.v.t \in {"frame", "opaque"} THEN RErr(OutOfModel, r.s, r.c, <<>>)
                ELSE P(IF Truthy(r.v) THEN n.then ELSE n.else, r.s, r.c))
      [] n.k = "Switch" ->
            Then(EvalR(n.key, s, c), LAMBDA r :
                IF ~Hashable(r.v) THEN RErr("TypeError", r.s, r.c, <<>>)
                ELSE LET i == SwitchIdx(n, r.v) IN P(IF i = 0 THEN n.default ELSE n.cv[i], r.s, r.c))
      [] n.k = "StopIf" ->
            Then(EvalR(n.cond, s, c), LAMBDA r :
                IF Truthy(r.v) THEN RErr("StopFieldError", r.s, r.c, <<>>) ELSE ROk(VNone, r.s, r.c, <<>>))
      [] n.k = "Padded" ->
            Then(IntParam(n.len, s, c), LAMBDA L :
                IF L.v < 0 THEN RErr("PaddingError", L.s, L.c, <<>>)
                ELSE Then(STell(L.s, L.c), LAMBDA p1 :
                     Then(P(n.sub, p1.s, p1.c), LAMBDA r :
                     Then(STell(r.s, r.c), LAMBDA p2 :
                        LET pad == L.v - (p2.v - p1.v) IN
                        IF pad < 0 THEN RErr("PaddingError", p2.s, p2.c, <<>>)
                        ELSE Then(SRead(p2.s, p2.c, pad), LAMBDA d : ROk(r.v, d.s, d.c, <<>>))))))
      [] n.k = "Aligned" ->
            Then(IntParam(n.mod, s, c), LAMBDA m :
                IF m.v < 2 THEN RErr("PaddingError", m.s, m.c, <<>>)
                ELSE Then(STell(m.s, m.c), LAMBDA p1 :
                     Then(P(n.sub, p1.s, p1.c), LAMBDA r :
                     Then(STell(r.s, r.c), LAMBDA p2 :
                        Then(SRead(p2.s, p2.c, PyMod(-(p2.v - p1.v), m.v)), LAMBDA d : ROk(r.v, d.s, d.c, <<>>))))))
      [] n.k = "Pointer" ->
            Then(IntParam(n.off, s, c), LAMBDA o :
                Then(STell(o.s, o.c), LAMBDA fb :
                Then(SSeek(fb.s, fb.c, o.v, IF o.v < 0 THEN 2 ELSE 0), LAMBDA k :
                Then(P(n.sub, k.s, k.c), LAMBDA r :
                Then(SSeek(r.s, r.c, fb.v, 0), LAMBDA b : ROk(r.v, b.s, b.c, <<>>))))))
      [] n.k = "Peek" ->
            Then(STell(s, c), LAMBDA fb :
                LET r == P(n.sub, fb.s, fb.c)
                    b == SSeek(r.s, r.c, fb.v, 0)          \* finally: runs on every path
                IN IF ~b.ok THEN [b EXCEPT !.ev = r.ev]
                   ELSE IF r.ok THEN ROk(r.v, b.s, b.c, r.ev)
                   ELSE IF r.err = "ExplicitError" \/ ~IsConstructError(r.err) THEN RErr(r.err, b.s, b.c, r.ev)
                   ELSE ROk(VNone, b.s, b.c, r.ev))
      [] n.k = "OffsettedEnd" ->
            Then(IntParam(n.end, s, c), LAMBDA eo :
                Then(STell(eo.s, eo.c), LAMBDA cur :
                Then(SSeek(cur.s, cur.c, 0, 2), LAMBDA k1 :
                Then(STell(k1.s, k1.c), LAMBDA endp :
                Then(SSeek(endp.s, endp.c, cur.v, 0), LAMBDA k2 :
                    LET len == endp.v + eo.v - cur.v IN
                    Then(STell(k2.s, k2.c), LAMBDA off :
                    Then(SRead(off.s, off.c, len), LAMBDA d :
                        LET r == P(n.sub, Mem(d.v.b, 0, off.v), d.c) IN
                        [r EXCEPT !.s = d.s])))))))
      [] n.k = "Seek" ->
            Then(IntParam(n.at, s, c), LAMBDA at :
                Then(IntParam(n.whence, at.s, at.c), LAMBDA wh : SSeek(wh.s, wh.c, at.v, wh.v)))
      [] n.k = "Tell" -> Then(STell(s, c), LAMBDA t : ROk(VInt(t.v), t.s, t.c, <<>>))
      [] n.k = "Pass" -> ROk(VNone, s, c, <<>>)
      [] n.k = "Terminated" ->
            \* reads the stream without the wrapping helper: a failing stream raises its own exception
            LET d == RawRead(s, 1) IN
            IF ~d.ok THEN RErr("StreamError", d.s, c, <<>>)
            ELSE IF d.v # <<>> THEN RErr("TerminatedError", d.s, c, <<>>) ELSE ROk(VNone, d.s, c, <<>>)
      [] n.k = "Lazy" ->     \* remembers the offset, skips the member by its size (Construct._actualsize) and returns a thunk
            Then(STell(s, c), LAMBDA o :
            Then(ActualSz(n.sub, o.s, o.c), LAMBDA a :
            Then(SSeek(a.s, a.c, o.v + a.v, 0), LAMBDA k : ROk([t |-> "opaque", r |-> "function"], k.s, k.c, <<>>))))
      [] n.k = "RawCopy" ->
            Then(STell(s, c), LAMBDA o1 :
                Then(P(n.sub, o1.s, o1.c), LAMBDA r :
                Then(STell(r.s, r.c), LAMBDA o2 :
                Then(SSeek(o2.s, o2.c, o1.v, 0), LAMBDA k :
                Then(SRead(k.s, k.c, o2.v - o1.v), LAMBDA d :
                    ROk(VDict(<<"data", "value", "offset1", "offset2", "length">>,
                              <<d.v, r.v, VInt(o1.v), VInt(o2.v), VInt(o2.v - o1.v)>>), d.s, d.c, <<>>))))))
      [] n.k = "Prefixed" ->
            Then(P(n.lenf, s, c), LAMBDA L :
                IF ~IsIntLike(L.v) THEN RErr(IF L.v.t = "opaque" THEN OutOfModel ELSE "TypeError", L.s, L.c, <<>>)
                ELSE Then(IF n.incl THEN ZIn(n.lenf, L.s, L.c) ELSE ROk(0, L.s, L.c, <<>>), LAMBDA z :
                     LET len == AsInt(ToIntV(L.v)) - z.v IN
                     Then(STell(L.s, L.c), LAMBDA off :
                     Then(SRead(off.s, off.c, len), LAMBDA d :
                        LET r == P(n.sub, Mem(d.v.b, 0, off.v), d.c) IN [r EXCEPT !.s = d.s]))))
      [] n.k = "FixedSized" ->
            Then(IntParam(n.len, s, c), LAMBDA L :
                IF L.v < 0 THEN RErr("PaddingError", L.s, L.c, <<>>)
                ELSE Then(STell(L.s, L.c), LAMBDA off :
                     Then(SRead(off.s, off.c, L.v), LAMBDA d :
                        LET r == P(n.sub, Mem(d.v.b, 0, off.v), d.c) IN [r EXCEPT !.s = d.s])))
      [] n.k = "NullTerminated" ->
            IF Len(n.term) < 1 THEN RErr("PaddingError", s, c, <<>>)
            ELSE Then(STell(s, c), LAMBDA off :
                 Then(NTScan(n, off.s, off.c, <<>>, Fuel * 8), LAMBDA d :
                    LET r == P(n.sub, Mem(d.v.b, 0, off.v), d.c) IN [r EXCEPT !.s = d.s]))
      [] n.k = "NullStripped" ->
            IF Len(n.pad) < 1 THEN RErr("PaddingError", s, c, <<>>)
            ELSE Then(STell(s, c), LAMBDA off :
                 Then(SReadAll(off.s, off.c), LAMBDA d :
                    LET unit == Len(n.pad)
                        data == d.v.b
                        RECURSIVE StripR(_)
                        StripR(end) == IF end - unit >= 0 /\ SubSeq(data, end - unit + 1, end) = n.pad
                                       THEN StripR(end - unit) ELSE end
                        tail == Len(data) % unit
                        e0 == IF unit > 1 /\ tail # 0 /\ SubSeq(data, Len(data) - tail + 1, Len(data)) = SubSeq(n.pad, 1, tail)
                              THEN Len(data) - tail ELSE Len(data)
                        r == P(n.sub, Mem(SubSeq(data, 1, StripR(e0)), 0, off.v), d.c)
                    IN [r EXCEPT !.s = d.s]))
      [] n.k = "Transformed" ->
            Then(IF n.damt < 0 THEN SReadAll(s, c) ELSE SRead(s, c, n.damt), LAMBDA d :
                LET x == ApplyFn(n.dec, d.v.b) IN
                IF ~x.ok THEN RErr("ValueError", d.s, d.c, <<>>)
                ELSE LET r == P(n.sub, Mem(x.v, 0, 0), d.c) IN [r EXCEPT !.s = d.s])
      [] n.k = "Restreamed" ->
            LET r == P(n.sub, Rs(s, n.dec, n.dunit, n.enc, n.eunit), c) IN
            IF ~r.ok THEN [r EXCEPT !.s = r.s.sub]
            ELSE IF ~RsCloseOk(r.s) THEN RErr("StreamError", r.s.sub, r.c, r.ev)
            ELSE [r EXCEPT !.s = r.s.sub]
      [] n.k = "ProcessXor" ->
            Then(EvalR(n.key, s, c), LAMBDA key :
                IF ~(IsIntLike(key.v) \/ key.v.t = "bytes") THEN RErr(IF key.v.t \in {"opaque", "frame"} THEN OutOfModel ELSE "StringError", key.s, key.c, <<>>)
                ELSE Then(STell(key.s, key.c), LAMBDA off :
                     Then(SReadAll(off.s, off.c), LAMBDA d :
                        LET x == XorData(d.v.b, key.v) IN
                        IF ~x.ok THEN RErr(x.v, d.s, d.c, <<>>)
                        ELSE LET r == P(n.sub, Mem(x.v, 0, off.v), d.c) IN [r EXCEPT !.s = d.s])))
      [] n.k = "ProcessRotateLeft" ->
            Then(IntParam(n.amount, s, c), LAMBDA am :
                Then(IntParam(n.group, am.s, am.c), LAMBDA g :
                    IF g.v < 1 THEN RErr("RotationError", g.s, g.c, <<>>)
                    ELSE Then(SReadAll(g.s, g.c), LAMBDA d :
                         IF Len(d.v.b) % g.v # 0 THEN RErr("RotationError", d.s, d.c, <<>>)
                         ELSE LET r == P(n.sub, Mem(RotLData(d.v.b, am.v, g.v), 0, 0), d.c) IN [r EXCEPT !.s = d.s])))
      [] n.k = "Compressed" ->
            \* the codec is an uninterpreted inverse pair; its graph on the explored data comes from the standard library
            Then(SReadAll(s, c), LAMBDA d :
                LET x == LookupLast(n.dk, n.dv, d.v) IN
                IF ~x.ok THEN RErr(OutOfModel, d.s, d.c, <<>>)
                ELSE IF x.v.t # "bytes" THEN RErr("CodecError", d.s, d.c, <<>>)          \* the codec rejects the data (foreign exception)
                ELSE LET r == P(n.sub, Mem(x.v.b, 0, 0), d.c) IN [r EXCEPT !.s = d.s])
      [] n.k = "Checksum" ->
            Then(P(n.field, s, c), LAMBDA h1 :
                Then(EvalR(n.over, h1.s, h1.c), LAMBDA data :
                    LET h2 == LookupLast(n.hk, n.hv, data.v) IN
                    IF ~h2.ok THEN RErr(OutOfModel, data.s, data.c, <<>>)
                    ELSE IF PyEq(h1.v, h2.v) THEN ROk(h1.v, data.s, data.c, <<>>)
                    ELSE RErr("ChecksumError", data.s, data.c, <<>>)))
      [] n.k = "ExprValidator" ->
            Then(P(n.sub, s, c), LAMBDA r :
                IF n.mode = "expr" THEN      \* any predicate over obj_ and the context: admitted iff its value is truthy
                    LET pr == Eval(n.f, r.v, VList(<<>>), r.c) IN
                    IF ~pr.ok THEN RErr(pr.err, r.s, r.c, <<>>)
                    ELSE IF pr.v.t \in {"frame", "opaque"} THEN RErr(OutOfModel, r.s, r.c, <<>>)
                    ELSE IF Truthy(pr.v) THEN ROk(r.v, r.s, r.c, <<>>) ELSE RErr("ValidationError", r.s, r.c, <<>>)
                ELSE
                LET inside == PyIn(r.v, n.vals)
                    good == IF n.mode = "oneof" THEN inside ELSE ~inside
                IN IF good THEN ROk(r.v, r.s, r.c, <<>>) ELSE RErr("ValidationError", r.s, r.c, <<>>))
      [] n.k \in {"Hex", "HexDump"} ->
            \* display wrappers: the value is the inner value (as a display subclass); Hex on an integer asks the inner size for the
            \* zero padding of the display, and does without when the member has no fixed size
            Then(P(n.sub, s, c), LAMBDA r :
                IF n.k = "Hex" /\ IsIntLike(r.v) THEN
                    LET z == ZIn(n.sub, r.s, r.c) IN
                    IF z.ok \/ z.err = "SizeofError" THEN ROk(r.v, r.s, r.c, z.ev) ELSE [z EXCEPT !.v = VNone]
                ELSE ROk(r.v, r.s, r.c, <<>>))
      [] n.k = "LazyBound" ->     \* the construct the name stands for, looked up when it is reached
            IF HasDef(c, n.ref) THEN P(DefOf(c, n.ref), s, c) ELSE RErr(OutOfModel, s, c, <<>>)
      [] n.k = "Indexing" ->
            Then(P(n.sub, s, c), LAMBDA r :
                IF r.v.t # "list" THEN RErr(OutOfModel, r.s, r.c, <<>>)
                ELSE LET i == PyIndex(AsInt(n.index), Len(r.v.xs)) IN
                     IF i = 0 THEN RErr("RangeError", r.s, r.c, <<>>) ELSE ROk(r.v.xs[i], r.s, r.c, <<>>))
      [] n.k = "Slicing" ->
            IF ~SliceModelled(n) THEN RErr(OutOfModel, s, c, <<>>)
            ELSE Then(P(n.sub, s, c), LAMBDA r :
                IF r.v.t # "list" THEN RErr(OutOfModel, r.s, r.c, <<>>)
                ELSE LET idx == SlIdx(n.start, n.stop, n.step, Len(r.v.xs)) IN
                     ROk(VList([j \in 1..Len(idx) |-> r.v.xs[idx[j]]]), r.s, r.c, <<>>))
      [] n.k = "Invalid" -> RErr(OutOfModel, s, c, <<>>)
      [] OTHER -> RErr(OutOfModel, s, c, <<>>)

PStructLoop(subs, i, s, c, obj, ev) ==
    IF i > Len(subs) THEN ROk(obj, s, c, ev)
    ELSE LET r == P(subs[i], s, c)
             nm == NameOf(subs[i])
         IN IF r.ok THEN PStructLoop(subs, i + 1, r.s, IF nm # "" THEN SetCur(r.c, nm, r.v) ELSE r.c,
                                     IF nm # "" THEN DSet(obj, nm, r.v) ELSE obj, ev \o r.ev)
            ELSE IF r.err = "StopFieldError" THEN ROk(obj, r.s, r.c, ev \o r.ev)
            ELSE [r EXCEPT !.ev = ev \o @]
PLazyArrLoop(sc, i, cnt, s, c, off, ev) ==
    IF i >= cnt THEN ROk([t |-> "opaque", r |-> "LazyListContainer"], s, c, ev)
    ELSE IF i >= Fuel THEN RErr(OutOfModel, s, c, ev)
    ELSE LET a == ActualSz(sc, s, c) IN
         IF a.ok THEN LET k == SSeek(a.s, c, off + a.v, 0) IN
                      IF ~k.ok THEN [k EXCEPT !.ev = ev \o a.ev] ELSE PLazyArrLoop(sc, i + 1, cnt, k.s, c, off + a.v, ev \o a.ev)
         ELSE IF a.err # "SizeofError" THEN [a EXCEPT !.c = c, !.ev = ev \o @]
         ELSE LET k == SSeek(a.s, c, off, 0) IN
              IF ~k.ok THEN [k EXCEPT !.ev = ev \o a.ev]
              ELSE LET r == P(sc, k.s, c) IN
                   IF ~r.ok THEN [r EXCEPT !.ev = ev \o a.ev \o @]
                   ELSE LET t == STell(r.s, r.c) IN
                        IF ~t.ok THEN [t EXCEPT !.ev = ev \o a.ev \o r.ev]
                        ELSE PLazyArrLoop(sc, i + 1, cnt, t.s, r.c, t.v, ev \o a.ev \o r.ev)
PLazyLoop(subs, i, s, c, off, ev) ==
    IF i > Len(subs) THEN ROk([t |-> "opaque", r |-> "LazyContainer"], s, c, ev)
    ELSE LET a == ActualSz(subs[i], s, c) IN
         IF a.ok THEN LET k == SSeek(a.s, c, off + a.v, 0) IN
                      IF ~k.ok THEN [k EXCEPT !.ev = ev \o a.ev] ELSE PLazyLoop(subs, i + 1, k.s, c, off + a.v, ev \o a.ev)
         ELSE IF a.err # "SizeofError" THEN [a EXCEPT !.c = c, !.ev = ev \o @]
         ELSE LET k == SSeek(a.s, c, off, 0) IN
              IF ~k.ok THEN [k EXCEPT !.ev = ev \o a.ev]
              ELSE LET r == P(subs[i], k.s, c)
                       nm == NameOf(subs[i])
                   IN IF ~r.ok THEN [r EXCEPT !.ev = ev \o a.ev \o @]
                      ELSE LET t == STell(r.s, r.c) IN
                           IF ~t.ok THEN [t EXCEPT !.ev = ev \o a.ev \o r.ev]
                           ELSE PLazyLoop(subs, i + 1, t.s, IF nm # "" THEN SetCur(r.c, nm, r.v) ELSE r.c, t.v, ev \o a.ev \o r.ev)
PSeqLoop(subs, i, s, c, xs, ev) ==
    IF i > Len(subs) THEN ROk(VList(xs), s, c, ev)
    ELSE LET r == P(subs[i], s, c)
             nm == NameOf(subs[i])
         IN IF r.ok THEN PSeqLoop(subs, i + 1, r.s, IF nm # "" THEN SetCur(r.c, nm, r.v) ELSE r.c, Append(xs, r.v), ev \o r.ev)
            ELSE IF r.err = "StopFieldError" THEN ROk(VList(xs), r.s, r.c, ev \o r.ev)
            ELSE [r EXCEPT !.ev = ev \o @]
PFocusedLoop(subs, i, s, c, sel, found, val, ev) ==
    IF i > Len(subs) THEN (IF found THEN ROk(val, s, c, ev) ELSE RErr("UnboundLocalError", s, c, ev))
    ELSE LET r == P(subs[i], s, c)
             nm == NameOf(subs[i])
             isSel == IF nm = "" THEN sel.t = "none" ELSE (sel.t = "str" /\ sel.s = NameCps(subs[i]))
         IN IF r.ok THEN PFocusedLoop(subs, i + 1, r.s, IF nm # "" THEN SetCur(r.c, nm, r.v) ELSE r.c, sel,
                                      found \/ isSel, IF isSel THEN r.v ELSE val, ev \o r.ev)
            ELSE [r EXCEPT !.ev = ev \o @]
PArrayLoop(n, i, cnt, s, c, xs, ev) ==
    IF i >= cnt THEN ROk(VList(xs), s, c, ev)
    ELSE IF i > 64 THEN RErr(OutOfModel, s, c, ev)
    ELSE LET r == P(n.sub, s, SetCur(c, "_index", VInt(i))) IN
         IF r.ok THEN PArrayLoop(n, i + 1, cnt, r.s, r.c, IF n.discard THEN xs ELSE Append(xs, r.v), ev \o r.ev)
         ELSE [r EXCEPT !.ev = ev \o @]
PGreedyLoop(n, i, s, c, xs, ev) ==
    IF i > Fuel THEN RErr("Diverges", s, c, ev)
    ELSE LET c1 == SetCur(c, "_index", VInt(i)) IN
         Then(ROk(VNone, s, c1, ev), LAMBDA z :
         Then(STell(s, c1), LAMBDA fb :
            LET r == P(n.sub, fb.s, fb.c) IN
            IF r.ok THEN LET q == PGreedyLoop(n, i + 1, r.s, r.c, IF n.discard THEN xs ELSE Append(xs, r.v), <<>>) IN
                         [q EXCEPT !.ev = r.ev \o @]
            ELSE IF r.err = "StopFieldError" THEN ROk(VList(xs), r.s, r.c, r.ev)
            ELSE IF r.err \in {"ExplicitError", OutOfModel, "Diverges"} THEN r
            ELSE LET b == SSeek(r.s, r.c, fb.v, 0) IN
                 IF ~b.ok THEN [b EXCEPT !.ev = r.ev] ELSE ROk(VList(xs), b.s, b.c, r.ev)))
PRepeatLoop(n, i, s, c, xs, ev) ==
    IF i > Fuel THEN RErr("Diverges", s, c, ev)
    ELSE LET r == P(n.sub, s, SetCur(c, "_index", VInt(i))) IN
         IF ~r.ok THEN [r EXCEPT !.ev = ev \o @]
         ELSE LET ys == IF n.discard THEN xs ELSE Append(xs, r.v)
                  pr == Eval(n.pred, r.v, VList(ys), r.c)
              IN IF ~pr.ok THEN RErr(pr.err, r.s, r.c, ev \o r.ev)
                 ELSE IF pr.v.t \in {"frame", "opaque"} THEN RErr(OutOfModel, r.s, r.c, ev \o r.ev)
                 ELSE IF Truthy(pr.v) THEN ROk(VList(ys), r.s, r.c, ev \o r.ev)
                 ELSE PRepeatLoop(n, i + 1, r.s, r.c, ys, ev \o r.ev)
PSelectLoop(subs, i, s, c, ev) ==
    IF i > Len(subs) THEN RErr("SelectError", s, c, ev)
    ELSE LET fb == STell(s, c) IN
         IF ~fb.ok THEN [fb EXCEPT !.ev = ev]
         ELSE LET r == P(subs[i], fb.s, fb.c) IN
              IF r.ok THEN [r EXCEPT !.ev = ev \o @]
              ELSE IF r.err \in {"ExplicitError", OutOfModel, "Diverges"} THEN [r EXCEPT !.ev = ev \o @]
              ELSE LET b == SSeek(r.s, r.c, fb.v, 0) IN
                   IF ~b.ok THEN [b EXCEPT !.ev = ev \o r.ev]
                   ELSE PSelectLoop(subs, i + 1, b.s, b.c, ev \o r.ev)
\* Union: every member from the same start; forwards[i], forwards[name]; then parsefrom
PUnionLoop(n, i, start, s, c, obj, fw, ev) ==
    IF i > Len(n.subs) THEN
        LET pf == EvalCtx(n.from, c) IN
        IF ~pf.ok THEN RErr(pf.err, s, c, ev)
        ELSE IF pf.v.t = "none" THEN ROk(obj, s, c, ev)
        ELSE LET j == IF IsIntLike(pf.v) THEN (IF IntSmall(ToIntV(pf.v)) /\ ~ToIntV(pf.v).neg /\ IntOf(ToIntV(pf.v)) < Len(n.subs)
                                               THEN IntOf(ToIntV(pf.v)) + 1 ELSE 0)
                      ELSE IF pf.v.t = "str" THEN
                           (LET S == {q \in 1..Len(n.subs) : NameOf(n.subs[q]) # "" /\ NameCps(n.subs[q]) = pf.v.s} IN
                            IF S = {} THEN 0 ELSE CHOOSE q \in S : \A q2 \in S : q2 <= q)
                      ELSE 0
             IN IF j = 0 THEN RErr("KeyError", s, c, ev)
                ELSE LET k == SSeek(s, c, fw[j], 0) IN
                     IF ~k.ok THEN [k EXCEPT !.ev = ev] ELSE ROk(obj, k.s, k.c, ev)
    ELSE LET r == P(n.subs[i], s, c)
             nm == NameOf(n.subs[i])
         IN IF ~r.ok THEN [r EXCEPT !.ev = ev \o @]
            ELSE LET c2 == IF nm # "" THEN SetCur(r.c, nm, r.v) ELSE r.c
                     t == STell(r.s, c2)
                 IN IF ~t.ok THEN [t EXCEPT !.ev = ev \o r.ev]
                    ELSE LET t2 == IF nm # "" THEN STell(t.s, t.c) ELSE t IN
                         IF ~t2.ok THEN [t2 EXCEPT !.ev = ev \o r.ev]
                         ELSE LET b == SSeek(t2.s, t2.c, start, 0) IN
                              IF ~b.ok THEN [b EXCEPT !.ev = ev \o r.ev]
                              ELSE PUnionLoop(n, i + 1, start, b.s, b.c, IF nm # "" THEN DSet(obj, nm, r.v) ELSE obj,
                                              Append(fw, t.v), ev \o r.ev)
\* NullTerminated scan: unit-wise until the terminator; v = region bytes
NTScan(n, s, c, acc, fuel) ==
    IF fuel = 0 THEN RErr(OutOfModel, s, c, <<>>)
    ELSE LET unit == Len(n.term)
             d == SRead(s, c, unit)
         IN IF ~d.ok THEN (IF n.require THEN d ELSE ROk(VBytes(acc), d.s, d.c, <<>>))
            ELSE IF d.v.b = n.term THEN
                    LET data == IF n.include THEN acc \o d.v.b ELSE acc IN
                    IF n.consume THEN ROk(VBytes(data), d.s, d.c, <<>>)
                    ELSE Then(SSeek(d.s, d.c, -unit, 1), LAMBDA k : ROk(VBytes(data), k.s, k.c, <<>>))
            ELSE NTScan(n, d.s, d.c, acc \o d.v.b, fuel - 1)
(***************************************************************************)
(* Build.  B(n, obj, s, c): v is what _build returns (Struct stores it     *)
(* back into the frame, so it is observable).                              *)
(***************************************************************************)
RECURSIVE B(_, _, _, _), BB(_, _, _, _), BStructLoop(_, _, _, _, _, _), BSeqLoop(_, _, _, _, _, _, _),
          BArrayLoop(_, _, _, _, _, _, _), BGreedyLoop(_, _, _, _, _, _, _), BRepeatLoop(_, _, _, _, _, _, _, _),
          BSelectLoop(_, _, _, _, _, _), BUnionLoop(_, _, _, _, _, _), BFocusedLoop(_, _, _, _, _, _, _, _, _)

B(n, obj, s, c) == IF IsMacro(n) THEN B(Expand(n), obj, s, c)
                   ELSE IF n.k = "Rec" THEN B(n.sub, obj, s, WithDef(c, n.name, n.sub))
                   ELSE Wrap(n, "build", s, obj, BB(n, obj, s, c))
Fresh == Mem(<<>>, 0, 0)
RejOom == [ok |-> FALSE, v |-> <<>>, oom |-> TRUE]
TypeErrOr(v) == IF v.t \in {"opaque", "frame", "rat"} THEN OutOfModel ELSE "TypeError"
\* len(obj) as Python has it: [ok, v]
PyLen(v) == CASE v.t = "bytes" -> Ok(Len(v.b)) [] IsStrLike(v) -> Ok(Len(v.s)) [] v.t = "list" -> Ok(Len(v.xs))
              [] v.t = "dict" -> Ok(Len(v.k)) [] OTHER -> Rej

\* int -> float64 pattern (struct.pack of an int into a float field), small magnitudes only
IntToF64(v) ==
    LET m == MagBits(v) IN
    IF m = <<>> THEN Ok(<<0,0,0,0,0,0,0,0>>)
    ELSE IF Len(m) > 53 THEN Rej
    ELSE Ok(MkF64(IF v.neg THEN 1 ELSE 0, 1023 + Len(m) - 1, Tail(m) \o Rep(0, 52 - (Len(m) - 1))))

\* FlagsEnum: labels "a|b" -> flags
RECURSIVE OrLabels(_, _, _, _)
OrLabels(n, parts, i, acc) ==
    IF i > Len(parts) THEN [ok |-> TRUE, v |-> acc]
    ELSE LET nm == Strip(parts[i]) IN
         IF nm = <<>> THEN OrLabels(n, parts, i + 1, acc)
         ELSE LET j == LastIndexOf(n.ncps, nm) IN
              IF j = 0 THEN [ok |-> FALSE, v |-> acc] ELSE OrLabels(n, parts, i + 1, BitOrMag(acc, n.vals[j].mag))
RECURSIVE OrDict(_, _, _, _)
OrDict(n, d, i, acc) ==
    IF i > Len(d.k) THEN [ok |-> TRUE, v |-> acc]
    ELSE IF IsPrivateKey(d.k[i]) \/ ~Truthy(d.v[i]) THEN OrDict(n, d, i + 1, acc)
    ELSE LET j == LastIndexOf(n.names, d.k[i]) IN
         IF j = 0 THEN [ok |-> FALSE, v |-> acc] ELSE OrDict(n, d, i + 1, BitOrMag(acc, n.vals[j].mag))

BB(n, obj, s, c) ==
    CASE n.k = "Bytes" ->
            Then(IntParam(n.len, s, c), LAMBDA L :
                IF IsIntLike(obj) THEN
                    (IF L.v < 1 THEN RErr("ValueError", L.s, L.c, <<>>)
                     ELSE IF L.v > 64 THEN RErr(OutOfModel, L.s, L.c, <<>>)
                     ELSE LET e == IntToBytes(ToIntV(obj), L.v, FALSE) IN
                          IF ~e.ok THEN RErr("ValueError", L.s, L.c, <<>>)
                          ELSE Then(SWrite(L.s, L.c, VBytes(e.v), L.v), LAMBDA w : ROk(VBytes(e.v), w.s, w.c, <<>>)))
                ELSE IF obj.t = "opaque" THEN RErr(OutOfModel, L.s, L.c, <<>>)
                ELSE Then(SWrite(L.s, L.c, obj, L.v), LAMBDA w : ROk(obj, w.s, w.c, <<>>)))
      [] n.k = "GreedyBytes" ->
            LET l == PyLen(obj) IN
            IF ~l.ok THEN RErr(TypeErrOr(obj), s, c, <<>>)
            ELSE Then(SWrite(s, c, obj, l.v), LAMBDA w : ROk(obj, w.s, w.c, <<>>))
      [] n.k = "FormatField" ->
            LET sz == FmtSize(n.fc)
                enc == IF FmtIsInt(n.fc) THEN
                           (IF IsIntLike(obj) THEN IntToBytes(ToIntV(obj), sz, FmtSigned(n.fc))
                            ELSE Rej)
                       ELSE IF n.fc = "?" THEN
                           (IF obj.t \in {"opaque", "frame"} THEN RejOom
                            ELSE Ok(<<IF Truthy(obj) THEN 1 ELSE 0>>))
                       ELSE IF obj.t = "float" THEN FloatPack(obj.f, n.fc)
                       ELSE IF IsIntLike(obj) THEN
                           (LET f == IntToF64(ToIntV(obj)) IN IF f.ok THEN FloatPack(f.v, n.fc) ELSE RejOom)
                       ELSE Rej
            IN IF ~enc.ok THEN RErr(IF "oom" \in DOMAIN enc \/ obj.t = "opaque" THEN OutOfModel ELSE "FormatFieldError", s, c, <<>>)
               ELSE Then(SWrite(s, c, VBytes(IF FmtLittle(n.en) THEN Rev(enc.v) ELSE enc.v), sz), LAMBDA w : ROk(obj, w.s, w.c, <<>>))
      [] n.k = "BytesInteger" ->
            IF ~IsIntLike(obj) THEN RErr(IF obj.t = "opaque" THEN OutOfModel ELSE "IntegerError", s, c, <<>>)
            ELSE Then(IntParam(n.len, s, c), LAMBDA L :
                IF L.v <= 0 THEN RErr("IntegerError", L.s, L.c, <<>>)
                ELSE IF L.v > 64 THEN RErr(OutOfModel, L.s, L.c, <<>>)
                ELSE LET e == IntToBytes(ToIntV(obj), L.v, n.signed) IN
                     IF ~e.ok THEN RErr("IntegerError", L.s, L.c, <<>>)
                     ELSE Then(EvalR(n.swapped, L.s, L.c), LAMBDA sw :
                          Then(SWrite(sw.s, sw.c, VBytes(IF Truthy(sw.v) THEN Rev(e.v) ELSE e.v), L.v), LAMBDA w :
                              ROk(obj, w.s, w.c, <<>>))))
      [] n.k = "BitsInteger" ->
            IF ~IsIntLike(obj) THEN RErr(IF obj.t = "opaque" THEN OutOfModel ELSE "IntegerError", s, c, <<>>)
            ELSE Then(IntParam(n.len, s, c), LAMBDA L :
                IF L.v <= 0 THEN RErr("IntegerError", L.s, L.c, <<>>)
                ELSE IF L.v > 256 THEN RErr(OutOfModel, L.s, L.c, <<>>)
                ELSE LET e == IntToBits(ToIntV(obj), L.v, n.signed) IN
                     IF ~e.ok THEN RErr("IntegerError", L.s, L.c, <<>>)
                     ELSE Then(EvalR(n.swapped, L.s, L.c), LAMBDA sw :
                          IF Truthy(sw.v) /\ L.v % 8 # 0 THEN RErr("IntegerError", sw.s, sw.c, <<>>)
                          ELSE Then(SWrite(sw.s, sw.c, VBytes(IF Truthy(sw.v) THEN SwapBytesInBits(e.v) ELSE e.v), L.v), LAMBDA w :
                              ROk(obj, w.s, w.c, <<>>))))
      [] n.k = "VarInt" ->
            IF ~IsIntLike(obj) THEN RErr(IF obj.t = "opaque" THEN OutOfModel ELSE "IntegerError", s, c, <<>>)
            ELSE IF ToIntV(obj).neg THEN RErr("IntegerError", s, c, <<>>)
            ELSE LET bs == VarIntEncode(ToIntV(obj)) IN
                 Then(SWrite(s, c, VBytes(bs), Len(bs)), LAMBDA w : ROk(obj, w.s, w.c, <<>>))
      [] n.k = "ZigZag" ->
            IF ~IsIntLike(obj) THEN RErr(IF obj.t = "opaque" THEN OutOfModel ELSE "IntegerError", s, c, <<>>)
            ELSE LET r == BB([k |-> "VarInt"], ZigZagFold(ToIntV(obj)), s, c) IN
                 IF ~r.ok THEN r ELSE [r EXCEPT !.v = obj]
      [] n.k = "StringEncoded" ->
            IF ~IsStrLike(obj) THEN RErr(IF obj.t = "opaque" THEN OutOfModel ELSE "StringError", s, c, <<>>)
            ELSE LET e == IF obj.s = <<>> THEN Ok(<<>>) ELSE StrEncode(obj.s, n.enc) IN
                 IF ~e.ok THEN RErr("StringError", s, c, <<>>)
                 ELSE Then(B(n.sub, VBytes(e.v), s, c), LAMBDA r : ROk(obj, r.s, r.c, <<>>))
      [] n.k = "Flag" ->
            IF obj.t \in {"opaque", "frame"} THEN RErr(OutOfModel, s, c, <<>>)
            ELSE Then(SWrite(s, c, VBytes(<<IF Truthy(obj) THEN 1 ELSE 0>>), 1), LAMBDA w : ROk(obj, w.s, w.c, <<>>))
      [] n.k = "Enum" ->
            IF IsIntLike(obj) THEN Then(B(n.sub, obj, s, c), LAMBDA r : ROk(obj, r.s, r.c, <<>>))
            ELSE IF ~Hashable(obj) THEN RErr("TypeError", s, c, <<>>)
            ELSE IF obj.t = "opaque" THEN RErr(OutOfModel, s, c, <<>>)
            ELSE LET j == IF IsStrLike(obj) THEN LastIndexOf(n.names, obj.s) ELSE 0 IN
                 IF j = 0 THEN RErr("MappingError", s, c, <<>>)
                 ELSE Then(B(n.sub, n.vals[j], s, c), LAMBDA r : ROk(obj, r.s, r.c, <<>>))
      [] n.k = "FlagsEnum" ->
            LET enc == IF IsIntLike(obj) THEN [ok |-> TRUE, v |-> obj]
                       ELSE IF IsStrLike(obj) THEN
                            (LET o == OrLabels(n, SplitOn(obj.s, 124, <<>>), 1, <<>>) IN [ok |-> o.ok, v |-> VIntM(FALSE, o.v)])
                       ELSE IF obj.t = "dict" THEN
                            (LET o == OrDict(n, obj, 1, <<>>) IN [ok |-> o.ok, v |-> VIntM(FALSE, o.v)])
                       ELSE [ok |-> FALSE, v |-> VNone]
            IN IF obj.t = "opaque" \/ (\E i \in 1..Len(n.vals) : n.vals[i].neg) THEN RErr(OutOfModel, s, c, <<>>)
               ELSE IF ~enc.ok THEN RErr("MappingError", s, c, <<>>)
               ELSE Then(B(n.sub, enc.v, s, c), LAMBDA r : ROk(obj, r.s, r.c, <<>>))
      [] n.k = "Mapping" ->
            IF obj.t = "opaque" THEN RErr(OutOfModel, s, c, <<>>)
            ELSE LET hit == IF Hashable(obj) THEN LookupLast(n.mk, n.mv, obj) ELSE [ok |-> FALSE, v |-> VNone] IN
                 IF ~hit.ok THEN RErr("MappingError", s, c, <<>>)
                 ELSE Then(B(n.sub, hit.v, s, c), LAMBDA r : ROk(obj, r.s, r.c, <<>>))
      [] n.k \in {"Struct", "LazyStruct"} ->
            LET o == IF obj.t = "none" THEN VEmptyDict ELSE obj IN
            IF o.t # "dict" THEN RErr(TypeErrOr(o), s, c, <<>>)
            ELSE LET c1 == Push(c)
                     c2 == [c1 EXCEPT !.fr[Len(c1.fr)] = DUpdate(@, o)]
                     r == BStructLoop(n.subs, 1, o, s, c2, <<>>)
                 IN [r EXCEPT !.c = Pop(@)]
      [] n.k = "Sequence" ->
            LET o == IF obj.t = "none" THEN VList([i \in 1..Len(n.subs) |-> VNone]) ELSE obj IN
            IF o.t # "list" THEN RErr(IF o.t \in {"bytes", "str", "dict"} THEN OutOfModel ELSE TypeErrOr(o), s, c, <<>>)
            ELSE LET r == BSeqLoop(n.subs, 1, o.xs, s, Push(c), <<>>, <<>>) IN [r EXCEPT !.c = Pop(@)]
      [] n.k \in {"Array", "LazyArray"} ->
            Then(IntParam(n.count, s, c), LAMBDA cnt :
                IF cnt.v < 0 THEN RErr("RangeError", cnt.s, cnt.c, <<>>)
                ELSE IF obj.t # "list" THEN RErr(IF obj.t \in {"bytes", "str", "dict", "enumstr"} THEN OutOfModel ELSE TypeErrOr(obj), cnt.s, cnt.c, <<>>)
                ELSE IF Len(obj.xs) # cnt.v THEN RErr("RangeError", cnt.s, cnt.c, <<>>)
                ELSE BArrayLoop(n, 1, obj.xs, cnt.s, cnt.c, <<>>, <<>>))
      [] n.k = "GreedyRange" ->
            IF obj.t # "list" THEN RErr(IF obj.t \in {"bytes", "str", "dict", "enumstr"} THEN OutOfModel ELSE TypeErrOr(obj), s, c, <<>>)
            ELSE BGreedyLoop(n, 1, obj.xs, s, c, <<>>, <<>>)
      [] n.k = "RepeatUntil" ->
            IF obj.t # "list" THEN RErr(IF obj.t \in {"bytes", "str", "dict", "enumstr"} THEN OutOfModel ELSE TypeErrOr(obj), s, c, <<>>)
            ELSE BRepeatLoop(n, 1, obj.xs, s, c, <<>>, <<>>, <<>>)
      [] n.k = "Renamed" -> B(n.sub, obj, s, c)
      [] n.k = "Const" ->
            IF obj.t \in {"opaque", "frame"} THEN RErr(OutOfModel, s, c, <<>>)
            ELSE IF ~(obj.t = "none" \/ PyEq(obj, n.val)) THEN RErr("ConstError", s, c, <<>>)
            ELSE B(n.sub, n.val, s, c)
      [] n.k = "Computed" -> EvalR(n.f, s, c)
      [] n.k = "Index" -> ROk(IF DHas(Cur(c), "_index") THEN DGet(Cur(c), "_index") ELSE VNone, s, c, <<>>)
      [] n.k = "Rebuild" -> Then(EvalR(n.f, s, c), LAMBDA v : B(n.sub, v.v, v.s, v.c))
      [] n.k = "Default" ->
            IF obj.t = "none" THEN Then(EvalR(n.val, s, c), LAMBDA v : B(n.sub, v.v, v.s, v.c))
            ELSE B(n.sub, obj, s, c)
      [] n.k = "Check" ->
            Then(EvalR(n.f, s, c), LAMBDA r :
                IF r.v.t \in {"frame", "opaque"} THEN RErr(OutOfModel, r.s, r.c, <<>>)
                ELSE IF Truthy(r.v) THEN ROk(VNone, r.s, r.c, <<>>) ELSE RErr("CheckError", r.s, r.c, <<>>))
      [] n.k = "Error" -> RErr("ExplicitError", s, c, <<>>)
      [] n.k = "FocusedSeq" ->
            LET c1 == Push(c)
                sel == EvalCtx(n.sel, c1)
            IN IF ~sel.ok THEN RErr(sel.err, s, c, <<>>)
               ELSE IF sel.v.t # "str" THEN RErr(OutOfModel, s, c, <<>>)
               ELSE LET j == CHOOSE j \in 0..Len(n.subs) : IF j = 0 THEN \A q \in 1..Len(n.subs) : NameCps(n.subs[q]) # sel.v.s
                                                           ELSE NameCps(n.subs[j]) = sel.v.s /\ \A q \in 1..(j-1) : NameCps(n.subs[q]) # sel.v.s
                        selname == IF j = 0 THEN "" ELSE NameOf(n.subs[j])
                        c2 == IF j = 0 THEN c1 ELSE SetCur(c1, selname, obj)      \* context[parsebuildfrom] = obj
                        r == IF j = 0 /\ sel.v.s # <<>> THEN RErr(OutOfModel, s, c1, <<>>)
                             ELSE BFocusedLoop(n.subs, 1, obj, s, c2, sel.v, FALSE, VNone, <<>>)
                    IN [r EXCEPT !.c = Pop(@)]
      [] n.k = "Union" ->
            IF obj.t # "dict" THEN RErr(TypeErrOr(obj), s, c, <<>>)
            ELSE LET c1 == Push(c)
                     c2 == [c1 EXCEPT !.fr[Len(c1.fr)] = DUpdate(@, obj)]
                     r == BUnionLoop(n.subs, 1, obj, s, c2, <<>>)
                 IN [r EXCEPT !.c = Pop(@)]
      [] n.k = "Select" -> BSelectLoop(n.subs, 1, obj, s, c, <<>>)
      [] n.k = "IfThenElse" ->
            Then(EvalR(n.cond, s, c), LAMBDA r :
                IF r.v.t \in {"frame", "opaque"} THEN RErr(OutOfModel, r.s, r.c, <<>>)
                ELSE B(IF Truthy(r.v) THEN n.then ELSE n.else, obj, r.s, r.c))
      [] n.k = "Switch" ->
            Then(EvalR(n.key, s, c), LAMBDA r :
                IF ~Hashable(r.v) THEN RErr("TypeError", r.s, r.c, <<>>)
                ELSE LET i == SwitchIdx(n, r.v) IN B(IF i = 0 THEN n.default ELSE n.cv[i], obj, r.s, r.c))
      [] n.k = "StopIf" ->
            Then(EvalR(n.cond, s, c), LAMBDA r :
                IF Truthy(r.v) THEN RErr("StopFieldError", r.s, r.c, <<>>) ELSE ROk(VNone, r.s, r.c, <<>>))
      [] n.k = "Padded" ->
            Then(IntParam(n.len, s, c), LAMBDA L :
                IF L.v < 0 THEN RErr("PaddingError", L.s, L.c, <<>>)
                ELSE Then(STell(L.s, L.c), LAMBDA p1 :
                     Then(B(n.sub, obj, p1.s, p1.c), LAMBDA r :
                     Then(STell(r.s, r.c), LAMBDA p2 :
                        LET pad == L.v - (p2.v - p1.v) IN
                        IF pad < 0 THEN RErr("PaddingError", p2.s, p2.c, <<>>)
                        ELSE IF pad > 4096 THEN RErr(OutOfModel, p2.s, p2.c, <<>>)
                        ELSE Then(SWrite(p2.s, p2.c, VBytes(Rep(n.pat, pad)), pad), LAMBDA w : ROk(r.v, w.s, w.c, <<>>))))))
      [] n.k = "Aligned" ->
            Then(IntParam(n.mod, s, c), LAMBDA m :
                IF m.v < 2 THEN RErr("PaddingError", m.s, m.c, <<>>)
                ELSE Then(STell(m.s, m.c), LAMBDA p1 :
                     Then(B(n.sub, obj, p1.s, p1.c), LAMBDA r :
                     Then(STell(r.s, r.c), LAMBDA p2 :
                        LET pad == PyMod(-(p2.v - p1.v), m.v) IN
                        IF pad > 4096 THEN RErr(OutOfModel, p2.s, p2.c, <<>>)
                        ELSE Then(SWrite(p2.s, p2.c, VBytes(Rep(n.pat, pad)), pad), LAMBDA w : ROk(r.v, w.s, w.c, <<>>))))))
      [] n.k = "Pointer" ->
            Then(IntParam(n.off, s, c), LAMBDA o :
                Then(STell(o.s, o.c), LAMBDA fb :
                Then(SSeek(fb.s, fb.c, o.v, IF o.v < 0 THEN 2 ELSE 0), LAMBDA k :
                Then(B(n.sub, obj, k.s, k.c), LAMBDA r :
                Then(SSeek(r.s, r.c, fb.v, 0), LAMBDA b : ROk(r.v, b.s, b.c, <<>>))))))
      [] n.k \in {"Peek", "Pass", "Terminated"} -> ROk(obj, s, c, <<>>)
      [] n.k = "OffsettedEnd" -> B(n.sub, obj, s, c)
      [] n.k = "Seek" ->
            Then(IntParam(n.at, s, c), LAMBDA at :
                Then(IntParam(n.whence, at.s, at.c), LAMBDA wh : SSeek(wh.s, wh.c, at.v, wh.v)))
      [] n.k = "Tell" -> Then(STell(s, c), LAMBDA t : ROk(VInt(t.v), t.s, t.c, <<>>))
      [] n.k = "Lazy" -> B(n.sub, obj, s, c)
      [] n.k = "RawCopy" ->
            LET o == IF obj.t = "none" /\ FBN(n.sub) THEN VDict(<<"value">>, <<VNone>>) ELSE obj IN
            IF o.t # "dict" THEN RErr(TypeErrOr(o), s, c, <<>>)
            ELSE IF DHas(o, "data") THEN
                LET data == DGet(o, "data")  l == PyLen(data) IN
                IF ~l.ok THEN RErr(TypeErrOr(data), s, c, <<>>)
                ELSE Then(STell(s, c), LAMBDA o1 :
                     Then(SWrite(o1.s, o1.c, data, l.v), LAMBDA w :
                     Then(STell(w.s, w.c), LAMBDA o2 :
                        ROk(DSet(DSet(DSet(DSet(o, "data", data), "offset1", VInt(o1.v)), "offset2", VInt(o2.v)),
                                 "length", VInt(o2.v - o1.v)), o2.s, o2.c, <<>>))))
            ELSE IF DHas(o, "value") THEN
                LET value == DGet(o, "value") IN
                Then(STell(s, c), LAMBDA o1 :
                Then(B(n.sub, value, o1.s, o1.c), LAMBDA r :
                Then(STell(r.s, r.c), LAMBDA o2 :
                Then(SSeek(o2.s, o2.c, o1.v, 0), LAMBDA k :
                Then(SRead(k.s, k.c, o2.v - o1.v), LAMBDA d :
                    ROk(DSet(DSet(DSet(DSet(DSet(o, "data", d.v), "value", IF r.v.t = "none" THEN value ELSE r.v),
                                 "offset1", VInt(o1.v)), "offset2", VInt(o2.v)), "length", VInt(o2.v - o1.v)),
                        d.s, d.c, <<>>))))))
            ELSE RErr("RawCopyError", s, c, <<>>)
      [] n.k = "Prefixed" ->
            LET r == B(n.sub, obj, Fresh, c) IN
            IF ~r.ok THEN [r EXCEPT !.s = s]
            ELSE LET data == r.s.data IN
                 [ Then(IF n.incl THEN ZIn(n.lenf, s, r.c) ELSE ROk(0, s, r.c, <<>>), LAMBDA z :
                   Then(B(n.lenf, VInt(Len(data) + z.v), s, r.c), LAMBDA l :
                   Then(SWrite(l.s, l.c, VBytes(data), Len(data)), LAMBDA w : ROk(r.v, w.s, w.c, <<>>))))
                   EXCEPT !.ev = r.ev \o @ ]
      [] n.k = "FixedSized" ->
            Then(IntParam(n.len, s, c), LAMBDA L :
                IF L.v < 0 THEN RErr("PaddingError", L.s, L.c, <<>>)
                ELSE LET r == B(n.sub, obj, Fresh, L.c) IN
                     IF ~r.ok THEN [r EXCEPT !.s = L.s]
                     ELSE LET data == r.s.data
                              pad == L.v - Len(data)
                          IN IF pad < 0 THEN RErr("PaddingError", L.s, r.c, r.ev)
                             ELSE IF pad > 4096 THEN RErr(OutOfModel, L.s, r.c, r.ev)
                             ELSE [ Then(SWrite(L.s, r.c, VBytes(data), Len(data)), LAMBDA w1 :
                                    Then(SWrite(w1.s, w1.c, VBytes(Rep(0, pad)), pad), LAMBDA w2 : ROk(r.v, w2.s, w2.c, <<>>)))
                                    EXCEPT !.ev = r.ev \o @ ])
      [] n.k = "NullTerminated" ->
            Then(B(n.sub, obj, s, c), LAMBDA r :
                Then(SWrite(r.s, r.c, VBytes(n.term), Len(n.term)), LAMBDA w : ROk(r.v, w.s, w.c, <<>>)))
      [] n.k = "NullStripped" -> B(n.sub, obj, s, c)
      [] n.k = "Transformed" ->
            LET r == B(n.sub, obj, Fresh, c) IN
            IF ~r.ok THEN [r EXCEPT !.s = s]
            ELSE LET x == ApplyFn(n.enc, r.s.data) IN
                 IF ~x.ok THEN RErr("ValueError", s, r.c, r.ev)
                 ELSE IF n.eamt >= 0 /\ Len(x.v) # n.eamt THEN RErr("StreamError", s, r.c, r.ev)
                 ELSE [ Then(SWrite(s, r.c, VBytes(x.v), Len(x.v)), LAMBDA w : ROk(r.v, w.s, w.c, <<>>)) EXCEPT !.ev = r.ev \o @ ]
      [] n.k = "Restreamed" ->
            LET r == B(n.sub, obj, Rs(s, n.dec, n.dunit, n.enc, n.eunit), c) IN
            IF ~r.ok THEN [r EXCEPT !.s = r.s.sub]
            ELSE IF ~RsCloseOk(r.s) THEN RErr("StreamError", r.s.sub, r.c, r.ev)
            ELSE [r EXCEPT !.s = r.s.sub, !.v = obj]
      [] n.k = "ProcessXor" ->
            Then(EvalR(n.key, s, c), LAMBDA key :
                IF ~(IsIntLike(key.v) \/ key.v.t = "bytes") THEN RErr(IF key.v.t \in {"opaque", "frame"} THEN OutOfModel ELSE "StringError", key.s, key.c, <<>>)
                ELSE LET r == B(n.sub, obj, Fresh, key.c) IN
                     IF ~r.ok THEN [r EXCEPT !.s = key.s]
                     ELSE LET x == XorData(r.s.data, key.v) IN
                          IF ~x.ok THEN RErr(x.v, key.s, r.c, r.ev)
                          ELSE [ Then(SWrite(key.s, r.c, VBytes(x.v), Len(x.v)), LAMBDA w : ROk(r.v, w.s, w.c, <<>>)) EXCEPT !.ev = r.ev \o @ ])
      [] n.k = "ProcessRotateLeft" ->
            Then(IntParam(n.amount, s, c), LAMBDA am :
                Then(IntParam(n.group, am.s, am.c), LAMBDA g :
                    IF g.v < 1 THEN RErr("RotationError", g.s, g.c, <<>>)
                    ELSE LET r == B(n.sub, obj, Fresh, g.c) IN
                         IF ~r.ok THEN [r EXCEPT !.s = g.s]
                         ELSE IF Len(r.s.data) % g.v # 0 THEN RErr("RotationError", g.s, r.c, r.ev)
                         ELSE LET x == RotLData(r.s.data, -am.v, g.v) IN
                              [ Then(SWrite(g.s, r.c, VBytes(x), Len(x)), LAMBDA w : ROk(r.v, w.s, w.c, <<>>)) EXCEPT !.ev = r.ev \o @ ]))
      [] n.k = "Checksum" ->
            Then(EvalR(n.over, s, c), LAMBDA data :
                LET h2 == LookupLast(n.hk, n.hv, data.v) IN
                IF ~h2.ok THEN RErr(OutOfModel, data.s, data.c, <<>>)
                ELSE Then(B(n.field, h2.v, data.s, data.c), LAMBDA r : ROk(h2.v, r.s, r.c, <<>>)))
      [] n.k = "Compressed" ->
            LET r == B(n.sub, obj, Fresh, c) IN
            IF ~r.ok THEN [r EXCEPT !.s = s]
            ELSE LET x == LookupLast(n.ek, n.ev, VBytes(r.s.data)) IN
                 IF ~x.ok THEN RErr(OutOfModel, s, r.c, r.ev)
                 ELSE [ Then(SWrite(s, r.c, x.v, Len(x.v.b)), LAMBDA w : ROk(obj, w.s, w.c, <<>>)) EXCEPT !.ev = r.ev \o @ ]
      [] n.k = "ExprValidator" ->
            IF obj.t \in {"opaque", "frame"} THEN RErr(OutOfModel, s, c, <<>>)
            ELSE IF n.mode = "expr" THEN
                LET pr == Eval(n.f, obj, VList(<<>>), c) IN
                IF ~pr.ok THEN RErr(pr.err, s, c, <<>>)
                ELSE IF pr.v.t \in {"frame", "opaque"} THEN RErr(OutOfModel, s, c, <<>>)
                ELSE IF ~Truthy(pr.v) THEN RErr("ValidationError", s, c, <<>>)
                ELSE Then(B(n.sub, obj, s, c), LAMBDA r : ROk(obj, r.s, r.c, <<>>))
            ELSE
            LET inside == PyIn(obj, n.vals)
                good == IF n.mode = "oneof" THEN inside ELSE ~inside
            IN IF ~good THEN RErr("ValidationError", s, c, <<>>)
               ELSE Then(B(n.sub, obj, s, c), LAMBDA r : ROk(obj, r.s, r.c, <<>>))
      [] n.k \in {"Hex", "HexDump"} -> Then(B(n.sub, obj, s, c), LAMBDA r : ROk(obj, r.s, r.c, <<>>))
      [] n.k = "LazyBound" ->
            IF HasDef(c, n.ref) THEN B(DefOf(c, n.ref), obj, s, c) ELSE RErr(OutOfModel, s, c, <<>>)
      [] n.k = "Indexing" ->      \* a list of `count` fillers with the value at `index`
            LET cnt == IF AsInt(n.count) < 0 THEN 0 ELSE AsInt(n.count)
                i == PyIndex(AsInt(n.index), cnt)
            IN IF cnt >= Lim THEN RErr(OutOfModel, s, c, <<>>)
               ELSE IF i = 0 THEN RErr("IndexError", s, c, <<>>)
               ELSE Then(B(n.sub, VList([j \in 1..cnt |-> IF j = i THEN obj ELSE n.empty]), s, c), LAMBDA r : ROk(obj, r.s, r.c, <<>>))
      [] n.k = "Slicing" ->       \* a list of `count` fillers with the slice replaced by the values (a plain slice may change the length)
            IF ~SliceModelled(n) THEN RErr(OutOfModel, s, c, <<>>)
            ELSE IF n.start.t = "none" THEN Then(B(n.sub, obj, s, c), LAMBDA r : ROk(obj, r.s, r.c, <<>>))
            ELSE LET cnt == IF AsInt(n.count) < 0 THEN 0 ELSE AsInt(n.count)
                     out == [j \in 1..cnt |-> n.empty]
                 IN IF cnt >= Lim THEN RErr(OutOfModel, s, c, <<>>)
                    ELSE IF obj.t # "list" THEN RErr(IF obj.t \in {"none", "int", "bool", "float"} THEN "TypeError" ELSE OutOfModel, s, c, <<>>)
                    ELSE IF n.step = 1 THEN
                         LET lo == SlLo(n.start, cnt)
                             hi == IF SlHi(n.stop, cnt) < lo THEN lo ELSE SlHi(n.stop, cnt)
                             lst == SubSeq(out, 1, lo - 1) \o obj.xs \o SubSeq(out, hi, cnt)
                         IN Then(B(n.sub, VList(lst), s, c), LAMBDA r : ROk(obj, r.s, r.c, <<>>))
                    ELSE LET idx == SlIdx(n.start, n.stop, n.step, cnt) IN
                         IF Len(idx) # Len(obj.xs) THEN RErr("ValueError", s, c, <<>>)
                         ELSE LET lst == [j \in 1..cnt |-> IF \E q \in 1..Len(idx) : idx[q] = j
                                                            THEN obj.xs[CHOOSE q \in 1..Len(idx) : idx[q] = j] ELSE out[j]]
                              IN Then(B(n.sub, VList(lst), s, c), LAMBDA r : ROk(obj, r.s, r.c, <<>>))
      [] OTHER -> RErr(OutOfModel, s, c, <<>>)

BStructLoop(subs, i, obj, s, c, ev) ==
    IF i > Len(subs) THEN ROk(PublicOf(Cur(c)), s, c, ev)
    ELSE LET sc == subs[i]
             nm == NameOf(sc)
         IN IF ~FBN(sc) /\ (nm = "" \/ ~DHas(obj, nm)) THEN RErr("KeyError", s, c, ev)
            ELSE LET subobj == IF nm # "" /\ DHas(obj, nm) THEN DGet(obj, nm) ELSE VNone
                     c1 == IF nm # "" THEN SetCur(c, nm, subobj) ELSE c
                     r == B(sc, subobj, s, c1)
                 IN IF r.ok THEN BStructLoop(subs, i + 1, obj, r.s, IF nm # "" THEN SetCur(r.c, nm, r.v) ELSE r.c, ev \o r.ev)
                    ELSE IF r.err = "StopFieldError" THEN ROk(PublicOf(Cur(r.c)), r.s, r.c, ev \o r.ev)
                    ELSE [r EXCEPT !.ev = ev \o @]
BSeqLoop(subs, i, xs, s, c, rets, ev) ==
    IF i > Len(subs) THEN ROk(VList(rets), s, c, ev)
    ELSE IF i > Len(xs) THEN RErr("StopIteration", s, c, ev)
    ELSE LET sc == subs[i]
             nm == NameOf(sc)
             c1 == IF nm # "" THEN SetCur(c, nm, xs[i]) ELSE c
             r == B(sc, xs[i], s, c1)
         IN IF r.ok THEN BSeqLoop(subs, i + 1, xs, r.s, IF nm # "" THEN SetCur(r.c, nm, r.v) ELSE r.c, Append(rets, r.v), ev \o r.ev)
            ELSE IF r.err = "StopFieldError" THEN ROk(VList(rets), r.s, r.c, ev \o r.ev)
            ELSE [r EXCEPT !.ev = ev \o @]
BArrayLoop(n, i, xs, s, c, rets, ev) ==
    IF i > Len(xs) THEN ROk(VList(rets), s, c, ev)
    ELSE LET r == B(n.sub, xs[i], s, SetCur(c, "_index", VInt(i - 1))) IN
         IF r.ok THEN BArrayLoop(n, i + 1, xs, r.s, r.c, IF "discard" \in DOMAIN n /\ n.discard THEN rets ELSE Append(rets, r.v), ev \o r.ev)
         ELSE [r EXCEPT !.ev = ev \o @]
BGreedyLoop(n, i, xs, s, c, rets, ev) ==
    IF i > Len(xs) THEN ROk(VList(rets), s, c, ev)
    ELSE LET r == B(n.sub, xs[i], s, SetCur(c, "_index", VInt(i - 1))) IN
         IF r.ok THEN BGreedyLoop(n, i + 1, xs, r.s, r.c, IF n.discard THEN rets ELSE Append(rets, r.v), ev \o r.ev)
         ELSE IF r.err = "StopFieldError" THEN ROk(VNone, r.s, r.c, ev \o r.ev)
         ELSE [r EXCEPT !.ev = ev \o @]
BRepeatLoop(n, i, xs, s, c, rets, part, ev) ==
    IF i > Len(xs) THEN RErr("RepeatError", s, c, ev)
    ELSE LET r == B(n.sub, xs[i], s, SetCur(c, "_index", VInt(i - 1))) IN
         IF ~r.ok THEN [r EXCEPT !.ev = ev \o @]
         ELSE LET rets2 == IF n.discard THEN rets ELSE Append(rets, r.v)
                  part2 == IF n.discard THEN part ELSE Append(part, r.v)
                  pr == Eval(n.pred, xs[i], VList(part2), r.c)
              IN IF ~pr.ok THEN RErr(pr.err, r.s, r.c, ev \o r.ev)
                 ELSE IF pr.v.t \in {"frame", "opaque"} THEN RErr(OutOfModel, r.s, r.c, ev \o r.ev)
                 ELSE IF Truthy(pr.v) THEN ROk(VList(rets2), r.s, r.c, ev \o r.ev)
                 ELSE BRepeatLoop(n, i + 1, xs, r.s, r.c, rets2, part2, ev \o r.ev)
\* Select: every alternative builds into a scratch buffer with the surrounding context; the first that
\* succeeds is written out.  (Documented behaviour; see DESIGN.md on Select._build and the top frame.)
BSelectLoop(subs, i, obj, s, c, ev) ==
    IF i > Len(subs) THEN RErr("SelectError", s, c, ev)
    ELSE LET r == B(subs[i], obj, Fresh, c) IN
         \* the alternatives run in the surrounding context: what they leave there (_index) stays
         IF r.ok THEN [ Then(SWrite(s, r.c, VBytes(r.s.data), Len(r.s.data)), LAMBDA w : ROk(obj, w.s, w.c, <<>>))
                        EXCEPT !.ev = ev \o r.ev \o @ ]
         ELSE IF r.err \in {"ExplicitError", OutOfModel, "Diverges"} THEN [r EXCEPT !.ev = ev \o @, !.s = s]
         ELSE BSelectLoop(subs, i + 1, obj, s, r.c, ev \o r.ev)
BUnionLoop(subs, i, obj, s, c, ev) ==
    IF i > Len(subs) THEN RErr("UnionError", s, c, ev)
    ELSE LET sc == subs[i]
             nm == NameOf(sc)
             present == nm # "" /\ DHas(obj, nm)
         IN IF ~FBN(sc) /\ ~present THEN BUnionLoop(subs, i + 1, obj, s, c, ev)
            ELSE LET subobj == IF present THEN DGet(obj, nm) ELSE VNone
                     c1 == IF nm # "" THEN SetCur(c, nm, subobj) ELSE c
                     r == B(sc, subobj, s, c1)
                 IN IF ~r.ok THEN [r EXCEPT !.ev = ev \o @]
                    ELSE IF nm = "" THEN RErr(OutOfModel, r.s, r.c, ev \o r.ev)      \* Container({None: ...})
                    ELSE ROk(VDict(<<nm>>, <<r.v>>), r.s, SetCur(r.c, nm, r.v), ev \o r.ev)
BFocusedLoop(subs, i, obj, s, c, sel, found, val, ev) ==
    IF i > Len(subs) THEN (IF found THEN ROk(val, s, c, ev) ELSE RErr("UnboundLocalError", s, c, ev))
    ELSE LET sc == subs[i]
             nm == NameOf(sc)
             isSel == nm # "" /\ NameCps(sc) = sel.s
             r == B(sc, IF isSel THEN obj ELSE VNone, s, c)
         IN IF r.ok THEN BFocusedLoop(subs, i + 1, obj, r.s, IF nm # "" THEN SetCur(r.c, nm, r.v) ELSE r.c, sel,
                                      found \/ isSel, IF isSel THEN r.v ELSE val, ev \o r.ev)
            ELSE [r EXCEPT !.ev = ev \o @]

---------------------------------------------------------------------------
\* public entry points
ParseCall(n, data, start, kw)  == P(n, Mem(data, start, 0), TopCtx(kw, "parse"))
ParseFaulty(n, data, start, kw, flt) == P(n, Faulty(data, start, flt), TopCtx(kw, "parse"))
BuildCall(n, obj, pre, kw)     == B(n, obj, Mem(pre, Len(pre), 0), TopCtx(kw, "build"))
BuildFaulty(n, obj, pre, kw, flt) == B(n, obj, Faulty(pre, Len(pre), flt), TopCtx(kw, "build"))
SizeofCall(n, kw)              == Z(n, TopCtx(kw, "sizeof"))
=============================================================================
