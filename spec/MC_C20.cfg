SPECIFICATION Spec
INVARIANT EqReflexive
INVARIANT EqSymmetric
INVARIANT EqTransitive
INVARIANT EqIgnoresOrderAndPrivate
INVARIANT CopyEqual
INVARIANT DeepDisjoint
INVARIANT HexInverts
PROPERTY CopyIndependent
CHECK_DEADLOCK FALSE
