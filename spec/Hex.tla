--------------------------------- MODULE Hex ---------------------------------
(***************************************************************************)
(* hexdump / hexundump (construct/lib/hex.py) at character level.           *)
(* Text is a sequence of lines, a line a sequence of character codes.       *)
(*   line i:  offset as 4 (or 8) upper-case hex digits, 3 spaces, the bytes  *)
(*            of the line as 2-digit upper-case hex separated by one space,  *)
(*            left-justified in 3*linesize-1 columns, 3 spaces, the bytes as *)
(*            characters with '.' for codes outside 32..127                  *)
(*   framed by the lines  hexundump("""  and  """)  and a final empty line   *)
(***************************************************************************)
EXTENDS Values

HexDigit(n) == IF n < 10 THEN 48 + n ELSE 55 + n                  \* '0'..'9', 'A'..'F'
HexByte(b) == <<HexDigit(b \div 16), HexDigit(b % 16)>>
RECURSIVE HexNat(_, _)
HexNat(n, w) == IF w = 0 THEN <<>> ELSE HexNat(n \div 16, w - 1) \o <<HexDigit(n % 16)>>
Printable(b) == IF b >= 32 /\ b < 128 THEN b ELSE 46
Spaces(n) == Rep(32, n)
JoinSp(bs) == IF bs = <<>> THEN <<>> ELSE Flatten([i \in 1..Len(bs) |-> IF i = 1 THEN HexByte(bs[i]) ELSE <<32>> \o HexByte(bs[i])])
Header == <<104, 101, 120, 117, 110, 100, 117, 109, 112, 40, 34, 34, 34>>       \* hexundump("""
Footer == <<34, 34, 34, 41>>                                                    \* """)

DumpLine(d, off, n, ow) ==
    LET line == SubSeq(d, off + 1, Min(off + n, Len(d)))
        hex == JoinSp(line)
    IN HexNat(off, ow) \o Spaces(3) \o hex \o Spaces((3 * n - 1) - Len(hex)) \o Spaces(3) \o [i \in 1..Len(line) |-> Printable(line[i])]
\* one line of a long dump, from the slice of the data it shows and its offset
DumpLineAt(slice, off, n, ow) ==
    LET hex == JoinSp(slice)
    IN HexNat(off, ow) \o Spaces(3) \o hex \o Spaces((3 * n - 1) - Len(hex)) \o Spaces(3) \o [i \in 1..Len(slice) |-> Printable(slice[i])]
OffsetWidth(len) == IF len < 65536 THEN 4 ELSE 8
HexDump(d, n) ==
    LET ow == IF Len(d) < 65536 THEN 4 ELSE 8
        nl == (Len(d) + n - 1) \div n
    IN <<Header>> \o [i \in 1..nl |-> DumpLine(d, (i - 1) * n, n, ow)] \o <<Footer, <<>>>>

\* reading the documented format back: skip the offset field, take the 3*linesize columns that hold the hex text
IsHex(c) == (c >= 48 /\ c <= 57) \/ (c >= 65 /\ c <= 70) \/ (c >= 97 /\ c <= 102)
HexVal(c) == IF c <= 57 THEN c - 48 ELSE IF c <= 70 THEN c - 55 ELSE c - 87
RECURSIVE LStripSp(_)
LStripSp(s) == IF s # <<>> /\ Head(s) = 32 THEN LStripSp(Tail(s)) ELSE s
RECURSIVE Tokens(_, _, _)         \* split on spaces
Tokens(s, i, cur) == IF i > Len(s) THEN (IF cur = <<>> THEN <<>> ELSE <<cur>>)
                     ELSE IF s[i] = 32 THEN (IF cur = <<>> THEN <<>> ELSE <<cur>>) \o Tokens(s, i + 1, <<>>)
                     ELSE Tokens(s, i + 1, Append(cur, s[i]))
UndumpLine(l, n) ==
    LET sp == IndexOf(l, 32)                                   \* end of the offset field
        rest == LStripSp(SubSeq(l, sp, Len(l)))
        toks == Tokens(SubSeq(rest, 1, Min(3 * n, Len(rest))), 1, <<>>)
    IN [i \in 1..Len(toks) |-> 16 * HexVal(toks[i][1]) + HexVal(toks[i][2])]
HexUndump(lines, n) == Flatten([i \in 1..(Len(lines) - 3) |-> UndumpLine(lines[i + 1], n)])
=============================================================================
