-------------------------------- MODULE Machine ------------------------------
(***************************************************************************)
(* The Construct Abstract Machine as a pushdown machine over construct     *)
(* boundaries.  A behaviour is one public call: `Enter` pushes the node    *)
(* that is entered (class, member name, stream position), `Leave` pops it  *)
(* with a value or an error.  The machine is driven either by the events   *)
(* Sem prescribes (MC_* configurations) or by events recorded from the     *)
(* real library (CAM.tla), one event per state.                              *)
(*                                                                         *)
(* The machine-level properties need no semantics of the individual        *)
(* classes: they relate the positions, values, error classes and paths of  *)
(* matching enter/leave pairs and of a node's children (stack discipline). *)
(* They are evaluated at every Leave step of every behaviour:              *)
(*   C09  PeekRestores, PointerRestores, alternatives and repeated         *)
(*        elements start where the contract says and leave no trace,       *)
(*        Union members start together                                     *)
(*   C14  RawCopy reports exactly the extent and bytes its member processed*)
(*   C18  the path of an error names the members on the stack where it     *)
(*        was created, and is kept while it propagates                     *)
(*   C06  only ConstructError subclasses leave the root                    *)
(***************************************************************************)
EXTENDS Props

VARIABLES pc,       \* number of events of the current call consumed (-1: the call has returned)
          stack,    \* open nodes, innermost last: [k, nm, op, p, kids]
          fails     \* sequence of [clause, at, node] found so far
mvars == <<pc, stack, fails>>

Kid(ev, pin) == [k |-> ev.k, ok |-> ev.ok, v |-> ev.v, err |-> ev.err, pin |-> pin, pout |-> ev.p, path |-> ev.path]
Frame(ev) == [k |-> ev.k, nm |-> ev.nm, op |-> ev.op, p |-> ev.p, kids |-> <<>>]

OpPrefix(op) == CASE op = "parse" -> "(parsing)" [] op = "build" -> "(building)" [] OTHER -> "(sizeof)"
RECURSIVE NamesOn(_, _)
NamesOn(stk, i) == IF i > Len(stk) THEN <<>> ELSE (IF stk[i].nm # "" THEN <<stk[i].nm>> ELSE <<>>) \o NamesOn(stk, i + 1)
\* the path an error created at the top of `stk` must carry (the call's operation names the prefix)
PathAt(stk, rootop) == <<OpPrefix(rootop)>> \o NamesOn(stk, 1)

\* classes whose member sees a different stream content or other coordinates than the root stream
NotRootCoords == {"Transformed", "Restreamed", "ProcessXor", "ProcessRotateLeft", "Compressed", "RestreamData",
                  "Prefixed", "FixedSized", "Select", "Compiled"}
AbsCoords(stk, op) == \A i \in 1..Len(stk) : stk[i].k \notin (IF op = "parse" THEN NotRootCoords \ {"Prefixed", "FixedSized", "Select"} ELSE NotRootCoords)

OkKids(f) == SelectSeq(f.kids, LAMBDA x : x.ok)

\* clauses violated by leaving frame f (already holding its children) with event ev; stk = stack including f
LeaveChecks(cs, stk, f, ev) ==
    LET nk == Len(f.kids)
        lastk == IF nk > 0 THEN f.kids[nk] ELSE Kid(ev, 0)
        rootop == cs.op
    IN
    \* ---- C09
    (IF f.k = "Peek" /\ f.op = "parse" /\ ev.ok /\ ev.p # f.p THEN <<"C09.peek-restores">> ELSE <<>>)
    \o (IF f.k = "Pointer" /\ f.op \in {"parse", "build"} /\ ev.ok /\ ev.p # f.p THEN <<"C09.pointer-restores">> ELSE <<>>)
    \o (IF f.k = "Select" /\ f.op = "parse" /\ (\E i \in 1..nk : f.kids[i].pin # f.p) THEN <<"C09.alternative-start">> ELSE <<>>)
    \o (IF f.k = "Select" /\ f.op = "parse" /\ ev.ok /\
           ~(nk > 0 /\ lastk.ok /\ ev.p = lastk.pout /\ ValEq(ev.v, lastk.v) /\ \A i \in 1..(nk - 1) : ~f.kids[i].ok)
        THEN <<"C09.alternative-result">> ELSE <<>>)
    \o (IF f.k = "GreedyRange" /\ f.op = "parse" /\
           ~(\A i \in 1..nk : f.kids[i].pin = (IF i = 1 THEN f.p ELSE f.kids[i - 1].pout) /\ (i < nk => f.kids[i].ok))
        THEN <<"C09.element-chain">> ELSE <<>>)
    \o (IF f.k = "GreedyRange" /\ f.op = "parse" /\ ev.ok /\ nk > 0 /\ ~lastk.ok /\ lastk.err # "StopFieldError" /\
           ev.p # (IF nk = 1 THEN f.p ELSE f.kids[nk - 1].pout)
        THEN <<"C09.failed-element-rewound">> ELSE <<>>)
    \o (IF f.k = "GreedyRange" /\ f.op = "parse" /\ ev.ok /\ ev.v.t = "list" /\ Len(ev.v.xs) = Len(OkKids(f)) /\
           ~(\A i \in 1..Len(ev.v.xs) : ValEq(ev.v.xs[i], OkKids(f)[i].v))
        THEN <<"C09.element-values">> ELSE <<>>)
    \o (IF f.k = "Union" /\ f.op = "parse" /\ (\E i \in 1..nk : f.kids[i].pin # f.p) THEN <<"C09.union-same-start">> ELSE <<>>)
    \o (IF f.k = "Union" /\ f.op = "parse" /\ ev.ok /\ ~(ev.p = f.p \/ \E i \in 1..nk : ev.p = f.kids[i].pout)
        THEN <<"C09.union-end">> ELSE <<>>)
    \* ---- C14
    \o (IF f.k = "RawCopy" /\ f.op = "parse" /\ ev.ok /\ ev.v.t = "dict" /\ nk = 1 /\ lastk.ok THEN
           (IF ~( DHas(ev.v, "offset1") /\ DHas(ev.v, "offset2") /\ DHas(ev.v, "length") /\ DHas(ev.v, "data") /\ DHas(ev.v, "value")
                  /\ DGet(ev.v, "offset1") = VInt(f.p) /\ DGet(ev.v, "offset2") = VInt(lastk.pout)
                  /\ DGet(ev.v, "length") = VInt(lastk.pout - f.p) /\ ValEq(DGet(ev.v, "value"), lastk.v)
                  /\ ev.p = lastk.pout
                  /\ DGet(ev.v, "data").t = "bytes" /\ Len(DGet(ev.v, "data").b) = lastk.pout - f.p
                  /\ (AbsCoords(stk, "parse") /\ cs.op = "parse" /\ lastk.pout >= f.p /\ lastk.pout <= Len(cs.data)
                        => DGet(ev.v, "data").b = SubSeq(cs.data, f.p + 1, lastk.pout)) )
            THEN <<"C14.rawcopy-parse">> ELSE <<>>)
        ELSE <<>>)
    \o (IF f.k = "RawCopy" /\ f.op = "build" /\ ev.ok /\ ev.v.t = "dict" THEN
           (IF ~( DHas(ev.v, "offset1") /\ DHas(ev.v, "offset2") /\ DHas(ev.v, "length") /\ DHas(ev.v, "data")
                  /\ DGet(ev.v, "offset1") = VInt(f.p) /\ DGet(ev.v, "offset2") = VInt(ev.p)
                  /\ DGet(ev.v, "length") = VInt(ev.p - f.p)
                  /\ DGet(ev.v, "data").t = "bytes" /\ Len(DGet(ev.v, "data").b) = ev.p - f.p
                  /\ (nk = 1 /\ lastk.ok => lastk.pout = ev.p /\ lastk.pin = f.p) )
            THEN <<"C14.rawcopy-build">> ELSE <<>>)
        ELSE <<>>)
    \* ---- C18: created here (no failing last child, or a different error) -> the path of this stack;
    \*           propagated from the failing last child -> unchanged
    \* (also for a size probe made in the middle of a parse or a build: it is handed the path of the place it is made from)
    \o (IF "model" \notin DOMAIN cs /\ ~ev.ok /\ IsConstructError(ev.err) /\ ev.err \notin {"StopFieldError", "CancelParsing"} /\
           ~(\E i \in 1..Len(stk) : stk[i].k = "Compiled") /\
           ~( ev.path = PathAt(stk, rootop) \/ (nk > 0 /\ ~lastk.ok /\ ev.path = lastk.path) )
        THEN <<"C18.path">> ELSE <<>>)
    \* an error of the class its failing last child left with is that child's error passing through (no class of the library catches an
    \* error only to raise the same class again from further out): the path keeps the inner names
    \o (IF "model" \notin DOMAIN cs /\ ~ev.ok /\ IsConstructError(ev.err) /\ ev.err \notin {"StopFieldError", "CancelParsing"} /\
           ~(\E i \in 1..Len(stk) : stk[i].k = "Compiled") /\
           nk > 0 /\ ~lastk.ok /\ lastk.err = ev.err /\ ev.path # lastk.path
        THEN <<"C18.path-shortened">> ELSE <<>>)

\* the three transitions of the machine on the call record cs (events either recorded or prescribed by Sem)
EnterOn(cs) == LET ev == cs.events[pc + 1] IN
    /\ pc >= 0 /\ pc < Len(cs.events) /\ ev.e = "in"
    /\ stack' = Append(stack, Frame(ev))
    /\ pc' = pc + 1 /\ UNCHANGED fails

LeaveOn(cs) == LET ev == cs.events[pc + 1] IN
    /\ pc >= 0 /\ pc < Len(cs.events) /\ ev.e = "out" /\ stack # <<>>
    /\ LET f == stack[Len(stack)]
           bad == LeaveChecks(cs, stack, f, ev)
           rest == SubSeq(stack, 1, Len(stack) - 1)
       IN /\ stack' = IF rest = <<>> THEN rest
                      ELSE [rest EXCEPT ![Len(rest)].kids = Append(@, Kid(ev, f.p))]
          /\ fails' = fails \o [i \in 1..Len(bad) |-> [clause |-> bad[i], at |-> pc + 1, node |-> f.k]]
    /\ pc' = pc + 1

\* the call returns to the user
RootChecks(cs) ==
    (IF ~cs.res.ok /\ cs.res.err # "Watchdog" /\ ~IsConstructError(cs.res.err) THEN <<[clause |-> "C06.only-construct-errors", at |-> 0, node |-> cs.res.err]>> ELSE <<>>)
    \o (IF cs.res.err = "Watchdog" THEN <<[clause |-> "C06.terminates", at |-> 0, node |-> "-"]>> ELSE <<>>)
    \o (IF ~cs.res.ok /\ IsConstructError(cs.res.err) /\ Len(cs.events) > 0 /\ cs.events[Len(cs.events)].e = "out"
           /\ ~cs.events[Len(cs.events)].ok /\ cs.res.path # cs.events[Len(cs.events)].path
        THEN <<[clause |-> "C18.path-kept", at |-> 0, node |-> "-"]>> ELSE <<>>)
ReturnOn(cs) ==
    /\ pc = Len(cs.events) /\ pc >= 0
    /\ pc' = -1 /\ stack' = <<>>
    /\ fails' = fails \o RootChecks(cs)
=============================================================================
