------------------------------ MODULE TraceKsy ------------------------------
(***************************************************************************)
(* Translation validation for C19: the document produced by the real        *)
(* export_ksy() is interpreted by Ksy.tla on canonical encodings and         *)
(* compared with the recorded (Sem-validated) parse of the construct:        *)
(* identifiers in declaration order, and for every member its extent and     *)
(* its value.                                                                *)
(***************************************************************************)
EXTENDS Ksy, Json, IOUtils, TLCExt
Input == JsonDeserialize(IOEnv.TRACE_FILE)
Cases == Input.cases
Docs == Input.docs
Done == {Input.done[i] : i \in 1..Len(Input.done)}
VARIABLES cid, done

\* a construct value against the value the schema assigns
RECURSIVE ValMatch(_, _)
ValMatch(cv, kv) ==
    CASE cv.t = "opaque" \/ kv.t = "opaque" -> TRUE
      [] kv.t = "dict" /\ DHas(kv, "data") /\ (DHas(kv, "lengthfield") \/ DHas(kv, "countfield")) -> ValMatch(cv, DGet(kv, "data"))
      [] kv.t = "dict" /\ kv.k = <<"x">> -> ValMatch(cv, kv.v[1])             \* the exporter's single-field wrapper type
      [] kv.t = "dict" /\ cv.t = "dict" -> \A i \in 1..Len(kv.k) : (DHas(cv, kv.k[i]) => ValMatch(DGet(cv, kv.k[i]), kv.v[i]))
      [] kv.t = "list" /\ cv.t = "list" -> Len(kv.xs) = Len(cv.xs) /\ \A i \in 1..Len(kv.xs) : ValMatch(cv.xs[i], kv.xs[i])
      [] cv.t = "enumstr" -> PyEq(cv.i, kv)
      [] cv.t = "none" -> TRUE                \* Padding, Pass ...: nothing to compare
      [] OTHER -> PyEq(cv, kv)

SeqIds(seq) == [i \in 1..Len(seq) |-> IF Has(seq[i], "id") THEN seq[i].id ELSE ""]
MemberOf(cs, id) == LET S == {i \in 1..Len(cs.members) : cs.members[i].name = id} IN IF S = {} THEN 0 ELSE CHOOSE i \in S : TRUE
RECURSIVE FieldDiff(_, _, _)
FieldDiff(cs, fs, i) ==
    IF i > Len(fs) THEN [why |-> "", at |-> ""]
    ELSE LET f == fs[i]  m == MemberOf(cs, f.id) IN
         IF m = 0 THEN [why |-> "unknown-id", at |-> f.id]
         ELSE IF f.s # cs.unit * cs.members[m].s \/ f.e # cs.unit * cs.members[m].e THEN [why |-> "extent", at |-> f.id]
         ELSE IF ~ValMatch(cs.members[m].v, f.v) THEN [why |-> "value", at |-> f.id]
         ELSE FieldDiff(cs, fs, i + 1)
Verdict(cs) ==
    LET doc == Docs[cs.di]
        ids == SeqIds(doc.seq)
    IN IF ids # cs.names THEN [id |-> cs.id, st |-> "mismatch", why |-> "ids", at |-> ""]
       ELSE LET r == RunDoc(doc, cs.data) IN
            IF ~r.ok THEN (LET d0 == FieldDiff(cs, r.fs, 1) IN           \* the first wrong member explains a later failure
                           IF d0.why # "" THEN [id |-> cs.id, st |-> "mismatch", why |-> d0.why, at |-> d0.at]
                           ELSE [id |-> cs.id, st |-> "mismatch", why |-> "ksy-run:" \o r.err, at |-> r.at])
            ELSE LET d == FieldDiff(cs, r.fs, 1) IN
                 IF d.why # "" THEN [id |-> cs.id, st |-> "mismatch", why |-> d.why, at |-> d.at]
                 ELSE IF r.pos # cs.unit * cs.endpos THEN [id |-> cs.id, st |-> "mismatch", why |-> "total-extent", at |-> ""]
                 ELSE [id |-> cs.id, st |-> "ok", why |-> "", at |-> ""]
Init == cid \in {i \in 1..Len(Cases) : Cases[i].id \notin Done} /\ done = FALSE
Next == ~done /\ done' = TRUE /\ cid' = cid /\ PrintT(ToJson(Verdict(Cases[cid])))
=============================================================================
