------------------------------- MODULE MC_C16 -------------------------------
(***************************************************************************)
(* Design level for C16: all access histories (any order, repetitions) up   *)
(* to the bound, over member lists mixing fixed-size, keyword-sized,        *)
(* length-prefixed (also includelength) and unsizable (VarInt, CString)     *)
(* members, on several inputs.  Real nondeterminism: which member is        *)
(* touched next.                                                            *)
(***************************************************************************)
EXTENDS Lazy, IOUtils, TLC

Thorough == "MC_TIER" \in DOMAIN IOEnv /\ IOEnv.MC_TIER = "thorough"
MaxHist == IF Thorough THEN 6 ELSE 4
Control == "MC_CONTROL" \in DOMAIN IOEnv /\ IOEnv.MC_CONTROL = "1"

R(nm, cps, sub) == [k |-> "Renamed", name |-> nm, ncp |-> cps, sub |-> sub]
ByteN == AliasTable["Byte"]
Kparam == [x |-> "item", o |-> [x |-> "item", o |-> [x |-> "this"], n |-> "_params"], n |-> "k"]
Lists == <<
   << R("a", <<97>>, ByteN), R("b", <<98>>, AliasTable["Int16ub"]), R("c", <<99>>, ByteN) >>,
   << R("a", <<97>>, [k |-> "Bytes", len |-> Kparam]), R("b", <<98>>, [k |-> "Prefixed", lenf |-> ByteN, incl |-> FALSE, sub |-> GreedyBytesN]), R("c", <<99>>, ByteN) >>,
   << R("a", <<97>>, [k |-> "VarInt"]), R("b", <<98>>, [k |-> "Prefixed", lenf |-> AliasTable["Int16ub"], incl |-> TRUE, sub |-> GreedyBytesN]), R("c", <<99>>, ByteN), R("d", <<100>>, AliasTable["Int16ul"]) >>,
   << R("a", <<97>>, ByteN), R("b", <<98>>, Expand([k |-> "CString", enc |-> "utf8"])), R("c", <<99>>, [k |-> "Prefixed", lenf |-> [k |-> "VarInt"], incl |-> FALSE, sub |-> ByteN]), R("d", <<100>>, ByteN) >>
>>
Inputs == << <<1, 0, 2, 3, 9>>, <<2, 7, 3, 65, 66, 67, 5, 6>>, <<129, 1, 0, 4, 8, 9, 3, 1, 2>>, <<5, 65, 66, 0, 1, 7, 9, 3>> >>
Ctx == TopCtx(VDict(<<"k">>, <<VInt(2)>>), "parse")

VARIABLES li,        \* which member list / input
          obj,       \* the lazy object: offsets, cache
          pos,       \* stream position as the surrounding code sees it
          hist,      \* accesses made
          last       \* what the last access returned: [i, ok, v]
vars == <<li, obj, pos, hist, last>>

Subs == Lists[li]
Data == Inputs[li]
Eager == P([k |-> "Struct", subs |-> Subs], Mem(Data, 0, 0), Ctx)
LazyCtx == Push(Ctx)

Init == /\ li \in 1..Len(Lists)
        /\ LET sc == LazyScan(Lists[li], 1, Inputs[li], 0, Push(Ctx), <<>>, << >>) IN
           /\ sc.ok
           /\ obj = [offs |-> sc.offs, cache |-> sc.cache]
           /\ pos = sc.end
        /\ hist = <<>> /\ last = [i |-> 0, ok |-> TRUE, v |-> VNone]

\* the design: seek, parse, cache, restore
Access(i) ==
    /\ Len(hist) < MaxHist
    /\ LET a == AccessValue(Subs, Data, LazyCtx, obj, i) IN
       /\ last' = [i |-> i, ok |-> a.ok, v |-> a.v]
       /\ obj' = IF a.ok THEN [obj EXCEPT !.cache = @ @@ (i :> a.v)] ELSE obj
    \* negative control (MC_CONTROL=1): the pinned snapshot sought to the member and did not put the position back
    /\ pos' = IF Control /\ i \notin DOMAIN obj.cache THEN obj.offs[i + 1] ELSE pos
    /\ hist' = Append(hist, i)
    /\ UNCHANGED li
Next == \E i \in 1..Len(Subs) : Access(i)
Spec == Init /\ [][Next]_vars

LazyEqualsEager == (last.i # 0 /\ Eager.ok) => last.ok /\ PyEq(last.v, DGet(Eager.v, NameOf(Subs[last.i])))
SameFinalPosition == Eager.ok => pos = Tell(Eager.s)
AccessIsInvisible == [][pos' = pos]_vars
ViewNoHist == <<li, obj, pos, last, Len(hist)>>
CacheSound == \A i \in DOMAIN obj.cache : Eager.ok /\ PyEq(obj.cache[i], DGet(Eager.v, NameOf(Subs[i])))
=============================================================================
