------------------------------ MODULE Values ------------------------------
(***************************************************************************)
(* The value domain of the Construct Abstract Machine.                     *)
(*                                                                         *)
(* Python values are tagged records.  Integers are sign + magnitude with   *)
(* the magnitude as a big-endian byte sequence without leading zeros, so   *)
(* that TLC's 32-bit integers never limit the domain (BytesInteger(16),    *)
(* VarInt beyond 2^64).  Narrowing to a native integer is explicit         *)
(* (AsInt) and saturates at +-Cap.                                          *)
(***************************************************************************)
EXTENDS Integers, Sequences, FiniteSets, TLC

Byte == 0..255
Cap  == 1073741824      \* 2^30: "more than any stream in the model holds"

Min(a, b) == IF a < b THEN a ELSE b
Max(a, b) == IF a > b THEN a ELSE b
Abs(a)    == IF a < 0 THEN -a ELSE a

---------------------------------------------------------------------------
\* sequences
Take(s, n) == SubSeq(s, 1, Min(n, Len(s)))
Drop(s, n) == SubSeq(s, n + 1, Len(s))
Rev(s)     == [i \in 1..Len(s) |-> s[Len(s) + 1 - i]]
Rep(x, n)  == [i \in 1..n |-> x]
Last(s)    == s[Len(s)]
Front(s)   == SubSeq(s, 1, Len(s) - 1)

RECURSIVE Flatten(_)
Flatten(ss) == IF ss = <<>> THEN <<>> ELSE Head(ss) \o Flatten(Tail(ss))

\* index of the first element equal to x, 0 if none
RECURSIVE IndexFrom(_, _, _)
IndexFrom(s, x, i) == IF i > Len(s) THEN 0 ELSE IF s[i] = x THEN i ELSE IndexFrom(s, x, i + 1)
IndexOf(s, x) == IndexFrom(s, x, 1)
\* index of the last element equal to x, 0 if none
RECURSIVE LastIndexFrom(_, _, _)
LastIndexFrom(s, x, i) == IF i < 1 THEN 0 ELSE IF s[i] = x THEN i ELSE LastIndexFrom(s, x, i - 1)
LastIndexOf(s, x) == LastIndexFrom(s, x, Len(s))

IsPrefixOf(p, s) == Len(p) <= Len(s) /\ SubSeq(s, 1, Len(p)) = p

---------------------------------------------------------------------------
\* bits and bytes
Pow2(n) == 2 ^ n
ByteBits(b) == [i \in 1..8 |-> (b \div Pow2(8 - i)) % 2]
BitsByte(bs) == bs[1]*128 + bs[2]*64 + bs[3]*32 + bs[4]*16 + bs[5]*8 + bs[6]*4 + bs[7]*2 + bs[8]
BytesToBits(bs) == [i \in 1..(8 * Len(bs)) |-> (bs[((i - 1) \div 8) + 1] \div Pow2(7 - ((i - 1) % 8))) % 2]
\* Len(bits) must be a multiple of 8
BitsToBytes(bits) == [j \in 1..(Len(bits) \div 8) |-> BitsByte(SubSeq(bits, 8 * j - 7, 8 * j))]

RECURSIVE StripZ(_)
StripZ(bs) == IF bs = <<>> THEN <<>> ELSE IF Head(bs) = 0 THEN StripZ(Tail(bs)) ELSE bs
PadLeft(bs, n)  == Rep(0, n - Len(bs)) \o bs
Invert(bs)  == [i \in 1..Len(bs) |-> 255 - bs[i]]
InvertBits(bs) == [i \in 1..Len(bs) |-> 1 - bs[i]]
\* add one to a fixed-width big-endian base-B digit string, dropping the final carry
RECURSIVE IncAt(_, _, _)
IncAt(bs, i, B) == IF i < 1 THEN bs
                   ELSE IF bs[i] = B - 1 THEN IncAt([bs EXCEPT ![i] = 0], i - 1, B)
                   ELSE [bs EXCEPT ![i] = bs[i] + 1]
Inc(bs, B)   == IncAt(bs, Len(bs), B)
Neg2c(bs)    == Inc(Invert(bs), 256)          \* two's complement negation, bytes
Neg2cBits(bs) == Inc(InvertBits(bs), 2)       \* two's complement negation, bits
\* subtract one from a non-zero fixed-width digit string
RECURSIVE DecAt(_, _, _)
DecAt(bs, i, B) == IF i < 1 THEN bs
                   ELSE IF bs[i] = 0 THEN DecAt([bs EXCEPT ![i] = B - 1], i - 1, B)
                   ELSE [bs EXCEPT ![i] = bs[i] - 1]
Dec(bs, B) == DecAt(bs, Len(bs), B)

\* lexicographic comparison of equal-length digit strings: -1, 0, 1
RECURSIVE CmpEq(_, _, _)
CmpEq(a, b, i) == IF i > Len(a) THEN 0 ELSE IF a[i] < b[i] THEN -1 ELSE IF a[i] > b[i] THEN 1 ELSE CmpEq(a, b, i + 1)
\* comparison of magnitudes (no leading zeros)
CmpMag(a, b) == IF Len(a) < Len(b) THEN -1 ELSE IF Len(a) > Len(b) THEN 1 ELSE CmpEq(a, b, 1)

RECURSIVE NatToBytes(_)
NatToBytes(n) == IF n = 0 THEN <<>> ELSE NatToBytes(n \div 256) \o <<n % 256>>
RECURSIVE BytesToNatAcc(_, _, _)
BytesToNatAcc(bs, i, acc) == IF i > Len(bs) THEN acc ELSE BytesToNatAcc(bs, i + 1, acc * 256 + bs[i])
BytesToNat(bs) == BytesToNatAcc(bs, 1, 0)        \* only for Len(bs) <= 3
RECURSIVE BitsToNatAcc(_, _, _)
BitsToNatAcc(bs, i, acc) == IF i > Len(bs) THEN acc ELSE BitsToNatAcc(bs, i + 1, acc * 2 + bs[i])
BitsToNat(bs) == BitsToNatAcc(bs, 1, 0)          \* only for Len(bs) <= 30
NatToBits(n, w) == [i \in 1..w |-> (n \div Pow2(w - i)) % 2]   \* w <= 30

---------------------------------------------------------------------------
\* tagged values
VNone       == [t |-> "none"]
VBool(b)    == [t |-> "bool", b |-> b]
VIntM(neg, mag) == LET m == StripZ(mag) IN [t |-> "int", neg |-> (neg /\ m # <<>>), mag |-> m]
VInt(i)     == [t |-> "int", neg |-> i < 0, mag |-> NatToBytes(Abs(i))]
VBytes(bs)  == [t |-> "bytes", b |-> bs]
VStr(cps)   == [t |-> "str", s |-> cps]           \* sequence of code points
VFloat(bs)  == [t |-> "float", f |-> bs]           \* IEEE-754 binary64 pattern, 8 bytes big-endian
VList(xs)   == [t |-> "list", xs |-> xs]
VDict(k, v) == [t |-> "dict", k |-> k, v |-> v]   \* ordered; keys are strings
VOpaque(r)  == [t |-> "opaque", r |-> r]
VEmptyDict  == VDict(<<>>, <<>>)

IsNone(v)  == v.t = "none"
IsInt(v)   == v.t = "int"
IsBool(v)  == v.t = "bool"
IsBytes(v) == v.t = "bytes"
IsStr(v)   == v.t = "str"
IsList(v)  == v.t = "list"
IsDict(v)  == v.t = "dict"
IsFloat(v) == v.t = "float"
\* Python's isinstance(v, int): bool is a subclass of int
IsIntLike(v) == v.t = "int" \/ v.t = "bool"
ToIntV(v) == IF v.t = "bool" THEN VInt(IF v.b THEN 1 ELSE 0) ELSE v

IntSmall(v) == Len(v.mag) <= 3
IntOf(v)    == IF v.neg THEN -BytesToNat(v.mag) ELSE BytesToNat(v.mag)
AsInt(v)    == IF IntSmall(v) THEN IntOf(v) ELSE IF v.neg THEN -Cap ELSE Cap
IsZero(v)   == v.mag = <<>>
IntLt(a, b) == \* a < b on int values
    IF a.neg /\ ~b.neg THEN TRUE
    ELSE IF ~a.neg /\ b.neg THEN FALSE
    ELSE IF ~a.neg THEN CmpMag(a.mag, b.mag) < 0
    ELSE CmpMag(a.mag, b.mag) > 0

\* Python truthiness
Truthy(v) == CASE v.t = "none"  -> FALSE
               [] v.t = "bool"  -> v.b
               [] v.t = "int"   -> v.mag # <<>>
               [] v.t = "bytes" -> v.b # <<>>
               [] v.t = "str"   -> v.s # <<>>
               [] v.t = "enumstr" -> v.s # <<>>
               [] v.t = "list"  -> v.xs # <<>>
               [] v.t = "dict"  -> v.k # <<>>
               [] v.t = "float" -> ~(Tail(v.f) = <<0,0,0,0,0,0,0>> /\ (v.f[1] = 0 \/ v.f[1] = 128))
               [] OTHER -> TRUE

\* dictionary access
DHas(d, key)  == IndexOf(d.k, key) # 0
DGet(d, key)  == d.v[IndexOf(d.k, key)]
DSet(d, key, val) == LET i == IndexOf(d.k, key) IN
    IF i = 0 THEN VDict(Append(d.k, key), Append(d.v, val))
    ELSE VDict(d.k, [d.v EXCEPT ![i] = val])
RECURSIVE DUpdateFrom(_, _, _)
DUpdateFrom(d, e, i) == IF i > Len(e.k) THEN d ELSE DUpdateFrom(DSet(d, e.k[i], e.v[i]), e, i + 1)
DUpdate(d, e) == DUpdateFrom(d, e, 1)
IsPrivateKey(k) == k # "" /\ SubSeq(k, 1, 1) = "_"

(***************************************************************************)
(* PyEq: Python's == as far as construct relies on it.                     *)
(*   - bool and int compare numerically (True == 1)                        *)
(*   - Container/dict equality ignores order and, as Container.__eq__      *)
(*     does, entries whose key starts with an underscore                   *)
(*   - floats compare by bit pattern, all NaNs being identified by class   *)
(*     (used for round-trip comparisons, not for Python's nan != nan)      *)
(***************************************************************************)
\* int -> binary64 pattern for |i| < 2^53 (exact); used for Python's 0.0 == 0, 2.0 == 2
F64OfInt(v) == \* v: int value with at most 53 significant bits; result 8 bytes
    LET m == StripZ(BytesToBits(v.mag)) IN
    IF m = <<>> THEN <<0, 0, 0, 0, 0, 0, 0, 0>>
    ELSE BitsToBytes(<<IF v.neg THEN 1 ELSE 0>> \o NatToBits(1023 + Len(m) - 1, 11) \o Tail(m) \o Rep(0, 52 - (Len(m) - 1)))
FitsF64(v) == Len(StripZ(BytesToBits(v.mag))) <= 53
IsNaN(f) == (f[1] % 128) = 127 /\ f[2] >= 240 /\ ~((f[2] = 240) /\ SubSeq(f, 3, 8) = <<0,0,0,0,0,0>>)
IsFZero(f) == Tail(f) = <<0,0,0,0,0,0,0>> /\ (f[1] = 0 \/ f[1] = 128)
\* EnumIntegerString is a str subclass: it compares as its text
AsStrV(v) == IF v.t = "enumstr" THEN [t |-> "str", s |-> v.s] ELSE v
IsStrLike(v) == v.t = "str" \/ v.t = "enumstr"
RECURSIVE PyEq(_, _)
PubKeys(d) == {i \in 1..Len(d.k) : ~IsPrivateKey(d.k[i])}
PyEq(a, b) ==
    CASE IsIntLike(a) /\ IsIntLike(b) -> ToIntV(a) = ToIntV(b)
      [] a.t = "float" /\ IsIntLike(b) -> FitsF64(ToIntV(b)) /\ (a.f = F64OfInt(ToIntV(b)) \/ (IsFZero(a.f) /\ IsZero(ToIntV(b))))
      [] IsIntLike(a) /\ b.t = "float" -> FitsF64(ToIntV(a)) /\ (b.f = F64OfInt(ToIntV(a)) \/ (IsFZero(b.f) /\ IsZero(ToIntV(a))))
      [] a.t = "float" /\ b.t = "float" -> a.f = b.f \/ (IsNaN(a.f) /\ IsNaN(b.f)) \/ (IsFZero(a.f) /\ IsFZero(b.f))
      [] a.t = "list" /\ b.t = "list" ->
            Len(a.xs) = Len(b.xs) /\ \A i \in 1..Len(a.xs) : PyEq(a.xs[i], b.xs[i])
      [] a.t = "dict" /\ b.t = "dict" ->
            /\ \A i \in PubKeys(a) : DHas(b, a.k[i]) /\ PyEq(a.v[i], DGet(b, a.k[i]))
            /\ \A i \in PubKeys(b) : DHas(a, b.k[i])
      [] IsStrLike(a) /\ IsStrLike(b) -> a.s = b.s
      [] a.t # b.t -> FALSE
      [] OTHER -> a = b

\* membership with Python's == (obj in (x, y, ...))
PyIn(x, xs) == \E i \in 1..Len(xs) : PyEq(x, xs[i])
=============================================================================
