------------------------------ MODULE Codecs ------------------------------
(***************************************************************************)
(* Wire formats, written from their definitions (two's complement, LEB128, *)
(* protobuf ZigZag, UTF-8/16/32, IEEE-754), over byte and bit sequences.   *)
(* Results are records [ok, v]; ok = FALSE means "the format rejects".     *)
(* RefFormats.tla re-defines the integer formats on native integers and    *)
(* MC_Codecs checks that the two agree on small domains.                   *)
(***************************************************************************)
EXTENDS Values

Ok(v)  == [ok |-> TRUE,  v |-> v]
Rej    == [ok |-> FALSE, v |-> <<>>]

---------------------------------------------------------------------------
\* fixed-width two's complement integers, big-endian byte order, width n >= 1
IntToBytes(v, n, signed) ==
    IF Len(v.mag) > n THEN Rej
    ELSE LET p == PadLeft(v.mag, n) IN
         IF ~signed THEN (IF v.neg THEN Rej ELSE Ok(p))
         ELSE IF ~v.neg THEN (IF p[1] < 128 THEN Ok(p) ELSE Rej)
         ELSE IF p[1] < 128 \/ p = <<128>> \o Rep(0, n - 1) THEN Ok(Neg2c(p)) ELSE Rej

BytesToInt(bs, signed) ==
    IF signed /\ bs[1] >= 128 THEN VIntM(TRUE, Neg2c(bs)) ELSE VIntM(FALSE, bs)

\* the same on bit strings (one bit per element), width w >= 1
MagBits(v) == StripZ(BytesToBits(v.mag))
BitsToMag(bits) == StripZ(BitsToBytes(Rep(0, (8 - (Len(bits) % 8)) % 8) \o bits))
IntToBits(v, w, signed) ==
    LET m == MagBits(v) IN
    IF Len(m) > w THEN Rej
    ELSE LET p == PadLeft(m, w) IN
         IF ~signed THEN (IF v.neg THEN Rej ELSE Ok(p))
         ELSE IF ~v.neg THEN (IF p[1] = 0 THEN Ok(p) ELSE Rej)
         ELSE IF p[1] = 0 \/ p = <<1>> \o Rep(0, w - 1) THEN Ok(Neg2cBits(p)) ELSE Rej
BitsToInt(bits, signed) ==
    IF signed /\ bits[1] = 1 THEN VIntM(TRUE, BitsToMag(Neg2cBits(bits))) ELSE VIntM(FALSE, BitsToMag(bits))

\* byte order helpers
SwapBytes(bs) == Rev(bs)
SwapBitsInBytes(bs) == [i \in 1..Len(bs) |-> BitsByte(Rev(ByteBits(bs[i])))]
\* reverse the order of the 8-bit groups of a bit string (length multiple of 8)
SwapBytesInBits(bits) == LET n == Len(bits) \div 8 IN
    [i \in 1..Len(bits) |-> bits[8 * (n - 1 - ((i - 1) \div 8)) + ((i - 1) % 8) + 1]]

---------------------------------------------------------------------------
\* LEB128 unsigned (VarInt): 7-bit groups, least significant group first,
\* continuation bit 0x80 on every byte but the last
RECURSIVE Groups7(_)      \* bits (length multiple of 7) -> bytes, most significant group first
Groups7(bits) == IF bits = <<>> THEN <<>>
                 ELSE <<BitsToNat(SubSeq(bits, 1, 7))>> \o Groups7(SubSeq(bits, 8, Len(bits)))
VarIntEncode(v) ==       \* v >= 0
    LET m == MagBits(v)
        p == Rep(0, (7 - (Len(m) % 7)) % 7) \o m
        g == IF p = <<>> THEN <<0>> ELSE Groups7(p)      \* MS group first
        k == Len(g)
    IN [i \in 1..k |-> IF i < k THEN 128 + g[k + 1 - i] ELSE g[1]]
\* number of bytes of the VarInt starting at index i of data (0 if it runs off the end)
RECURSIVE VarIntEnd(_, _)
VarIntEnd(data, i) == IF i > Len(data) THEN 0 ELSE IF data[i] < 128 THEN i ELSE VarIntEnd(data, i + 1)
VarIntDecode(bs) ==      \* bs: the bytes of one complete VarInt
    LET k == Len(bs)
        bits == Flatten([i \in 1..k |-> NatToBits(bs[k + 1 - i] % 128, 7)])
    IN VIntM(FALSE, BitsToMag(bits))

\* ZigZag: n >= 0 -> 2n ; n < 0 -> 2|n| - 1
ZigZagFold(v) ==         \* signed -> unsigned
    LET m == MagBits(v) IN
    IF ~v.neg THEN VIntM(FALSE, BitsToMag(m \o <<0>>))
    ELSE VIntM(FALSE, BitsToMag(Dec(m, 2) \o <<1>>))
ZigZagUnfold(u) ==       \* unsigned -> signed
    LET m == MagBits(u) IN
    IF m = <<>> THEN VInt(0)
    ELSE IF Last(m) = 0 THEN VIntM(FALSE, BitsToMag(Front(m)))
    ELSE VIntM(TRUE, BitsToMag(Inc(<<0>> \o Front(m), 2)))

---------------------------------------------------------------------------
\* text codecs.  A string is a sequence of code points 0..0x10FFFF.
IsSurrogate(c) == c >= 55296 /\ c <= 57343
EncNorm(e) == e    \* encoding names arrive normalised from the harness

Utf8Enc1(c) ==
    IF c < 128 THEN <<c>>
    ELSE IF c < 2048 THEN <<192 + (c \div 64), 128 + (c % 64)>>
    ELSE IF c < 65536 THEN <<224 + (c \div 4096), 128 + ((c \div 64) % 64), 128 + (c % 64)>>
    ELSE <<240 + (c \div 262144), 128 + ((c \div 4096) % 64), 128 + ((c \div 64) % 64), 128 + (c % 64)>>
IsCont(b) == b >= 128 /\ b < 192
RECURSIVE Utf8Dec(_, _, _)
Utf8Dec(bs, i, acc) ==
    IF i > Len(bs) THEN Ok(acc)
    ELSE LET b == bs[i] IN
      IF b < 128 THEN Utf8Dec(bs, i + 1, Append(acc, b))
      ELSE IF b >= 194 /\ b < 224 THEN
        IF i + 1 <= Len(bs) /\ IsCont(bs[i+1])
        THEN Utf8Dec(bs, i + 2, Append(acc, (b - 192) * 64 + (bs[i+1] - 128))) ELSE Rej
      ELSE IF b >= 224 /\ b < 240 THEN
        IF i + 2 <= Len(bs) /\ IsCont(bs[i+1]) /\ IsCont(bs[i+2])
        THEN LET c == (b - 224) * 4096 + (bs[i+1] - 128) * 64 + (bs[i+2] - 128) IN
             IF c < 2048 \/ IsSurrogate(c) THEN Rej ELSE Utf8Dec(bs, i + 3, Append(acc, c))
        ELSE Rej
      ELSE IF b >= 240 /\ b < 245 THEN
        IF i + 3 <= Len(bs) /\ IsCont(bs[i+1]) /\ IsCont(bs[i+2]) /\ IsCont(bs[i+3])
        THEN LET c == (b - 240) * 262144 + (bs[i+1] - 128) * 4096 + (bs[i+2] - 128) * 64 + (bs[i+3] - 128) IN
             IF c < 65536 \/ c > 1114111 THEN Rej ELSE Utf8Dec(bs, i + 4, Append(acc, c))
        ELSE Rej
      ELSE Rej

Utf16Unit(u, le) == IF le THEN <<u % 256, u \div 256>> ELSE <<u \div 256, u % 256>>
Utf16Enc1(c, le) ==
    IF c < 65536 THEN Utf16Unit(c, le)
    ELSE LET d == c - 65536 IN Utf16Unit(55296 + (d \div 1024), le) \o Utf16Unit(56320 + (d % 1024), le)
U16At(bs, i, le) == IF le THEN bs[i] + 256 * bs[i+1] ELSE 256 * bs[i] + bs[i+1]
RECURSIVE Utf16Dec(_, _, _, _)
Utf16Dec(bs, i, le, acc) ==
    IF i > Len(bs) THEN Ok(acc)
    ELSE IF i + 1 > Len(bs) THEN Rej
    ELSE LET u == U16At(bs, i, le) IN
      IF u >= 55296 /\ u < 56320 THEN
         IF i + 3 <= Len(bs) /\ U16At(bs, i + 2, le) >= 56320 /\ U16At(bs, i + 2, le) <= 57343
         THEN Utf16Dec(bs, i + 4, le, Append(acc, 65536 + (u - 55296) * 1024 + (U16At(bs, i + 2, le) - 56320)))
         ELSE Rej
      ELSE IF u >= 56320 /\ u <= 57343 THEN Rej
      ELSE Utf16Dec(bs, i + 2, le, Append(acc, u))

Utf32Enc1(c, le) == LET b == <<0, c \div 65536, (c \div 256) % 256, c % 256>> IN IF le THEN Rev(b) ELSE b
RECURSIVE Utf32Dec(_, _, _, _)
Utf32Dec(bs, i, le, acc) ==
    IF i > Len(bs) THEN Ok(acc)
    ELSE IF i + 3 > Len(bs) THEN Rej
    ELSE LET q == IF le THEN Rev(SubSeq(bs, i, i + 3)) ELSE SubSeq(bs, i, i + 3) IN
      IF q[1] # 0 \/ q[2] > 16 THEN Rej
      ELSE LET c == q[2] * 65536 + q[3] * 256 + q[4] IN
           IF IsSurrogate(c) THEN Rej ELSE Utf32Dec(bs, i + 4, le, Append(acc, c))

\* code unit size, as construct's encodingunit table has it
EncUnit(e) == CASE e \in {"ascii", "utf8"} -> 1
                [] e \in {"utf16", "utf_16_le", "utf_16_be"} -> 2
                [] e \in {"utf32", "utf_32_le", "utf_32_be"} -> 4

\* Python str.encode(e), strict
StrEncode(cps, e) ==
    LET n == Len(cps) IN
    CASE e = "ascii" -> IF \A i \in 1..n : cps[i] < 128 THEN Ok(cps) ELSE Rej
      [] e = "utf8"  -> IF \E i \in 1..n : IsSurrogate(cps[i]) THEN Rej
                        ELSE Ok(Flatten([i \in 1..n |-> Utf8Enc1(cps[i])]))
      [] e \in {"utf16", "utf_16_le", "utf_16_be"} ->
            IF \E i \in 1..n : IsSurrogate(cps[i]) THEN Rej
            ELSE LET le == e # "utf_16_be"
                     body == Flatten([i \in 1..n |-> Utf16Enc1(cps[i], le)])
                 IN Ok(IF e = "utf16" THEN <<255, 254>> \o body ELSE body)
      [] e \in {"utf32", "utf_32_le", "utf_32_be"} ->
            IF \E i \in 1..n : IsSurrogate(cps[i]) THEN Rej
            ELSE LET le == e # "utf_32_be"
                     body == Flatten([i \in 1..n |-> Utf32Enc1(cps[i], le)])
                 IN Ok(IF e = "utf32" THEN <<255, 254, 0, 0>> \o body ELSE body)
\* Python bytes.decode(e), strict; the BOM-sniffing codecs default to little endian here
\* (CPython uses native order; the sandbox and the property's reference are little endian)
StrDecode(bs, e) ==
    CASE e = "ascii" -> IF \A i \in 1..Len(bs) : bs[i] < 128 THEN Ok(bs) ELSE Rej
      [] e = "utf8"  -> Utf8Dec(bs, 1, <<>>)
      [] e = "utf_16_le" -> Utf16Dec(bs, 1, TRUE, <<>>)
      [] e = "utf_16_be" -> Utf16Dec(bs, 1, FALSE, <<>>)
      [] e = "utf16" -> IF Len(bs) >= 2 /\ SubSeq(bs, 1, 2) = <<255, 254>> THEN Utf16Dec(bs, 3, TRUE, <<>>)
                        ELSE IF Len(bs) >= 2 /\ SubSeq(bs, 1, 2) = <<254, 255>> THEN Utf16Dec(bs, 3, FALSE, <<>>)
                        ELSE Utf16Dec(bs, 1, TRUE, <<>>)
      [] e = "utf_32_le" -> Utf32Dec(bs, 1, TRUE, <<>>)
      [] e = "utf_32_be" -> Utf32Dec(bs, 1, FALSE, <<>>)
      [] e = "utf32" -> IF Len(bs) >= 4 /\ SubSeq(bs, 1, 4) = <<255, 254, 0, 0>> THEN Utf32Dec(bs, 5, TRUE, <<>>)
                        ELSE IF Len(bs) >= 4 /\ SubSeq(bs, 1, 4) = <<0, 0, 254, 255>> THEN Utf32Dec(bs, 5, FALSE, <<>>)
                        ELSE Utf32Dec(bs, 1, TRUE, <<>>)

---------------------------------------------------------------------------
\* IEEE-754.  A Python float is carried as its binary64 pattern (8 bytes, big-endian).
\* Widening binary32/binary16 -> binary64 is exact; narrowing rounds to nearest, ties to even,
\* and (as struct.pack does) rejects finite values that round to infinity.
F64Sign(f) == f[1] \div 128
F64Exp(f)  == (f[1] % 128) * 16 + (f[2] \div 16)
F64MantBits(f) == SubSeq(BytesToBits(f), 13, 64)            \* 52 bits
MkF64(sign, e, mant52) == BitsToBytes(<<sign>> \o NatToBits(e, 11) \o mant52)

\* widen: (sign, exponent field eb bits, mantissa bits mb) -> binary64 pattern
RECURSIVE LeadZeros(_)
LeadZeros(bits) == IF bits = <<>> THEN 0 ELSE IF Head(bits) = 1 THEN 0 ELSE 1 + LeadZeros(Tail(bits))
Widen(sign, e, mant, eb) ==
    LET bias == Pow2(eb - 1) - 1
        mb == Len(mant)
        emax == Pow2(eb) - 1
    IN IF e = emax THEN                                                      \* inf / nan
            IF \A i \in 1..mb : mant[i] = 0 THEN MkF64(sign, 2047, Rep(0, 52))
            \* CPython: a binary16 NaN unpacks to the canonical quiet NaN (sign kept, payload dropped); a binary32 NaN keeps its
            \* payload, left aligned, and is quieted by the float -> double conversion
            ELSE IF eb = 5 THEN MkF64(sign, 2047, <<1>> \o Rep(0, 51))
            ELSE MkF64(sign, 2047, <<1>> \o SubSeq(mant, 2, mb) \o Rep(0, 52 - mb))
       ELSE IF e = 0 THEN
            IF \A i \in 1..mb : mant[i] = 0 THEN MkF64(sign, 0, Rep(0, 52))   \* zero
            ELSE LET z == LeadZeros(mant)                                     \* subnormal: normalise
                     m2 == SubSeq(mant, z + 2, mb)
                 IN MkF64(sign, (1 - bias) - (z + 1) + 1023, m2 \o Rep(0, 52 - Len(m2)))
       ELSE MkF64(sign, e - bias + 1023, mant \o Rep(0, 52 - mb))

\* narrow a binary64 pattern to (eb, mb); result [ok, v] with v = <<sign, e, mantbits>>
\* round to nearest even on the (mb+1)-bit significand
RoundBits(sig, keep) ==  \* sig: bit string; keep the first `keep` bits, RNE on the rest; result may carry (length keep+1)
    IF keep >= Len(sig) THEN <<0>> \o sig \o Rep(0, keep - Len(sig))
    ELSE LET head == SubSeq(sig, 1, keep)
             g == sig[keep + 1]
             rest == SubSeq(sig, keep + 2, Len(sig))
             sticky == \E i \in 1..Len(rest) : rest[i] = 1
             lsb == IF keep = 0 THEN 0 ELSE head[keep]
             up == g = 1 /\ (sticky \/ lsb = 1)
         IN IF up THEN Inc(<<0>> \o head, 2) ELSE <<0>> \o head
Narrow(f, eb, mb) ==
    LET sign == F64Sign(f)
        e == F64Exp(f)
        m == F64MantBits(f)
        bias == Pow2(eb - 1) - 1
        emax == Pow2(eb) - 1
    IN IF e = 2047 THEN
            IF \A i \in 1..52 : m[i] = 0 THEN Ok(<<sign, emax, Rep(0, mb)>>)                \* inf
            ELSE IF eb = 5 THEN Ok(<<sign, emax, <<1>> \o Rep(0, mb - 1)>>)                   \* nan: binary16 packs the canonical one
            ELSE Ok(<<sign, emax, <<1>> \o SubSeq(m, 2, mb)>>)                               \* nan (quiet, payload kept)
       ELSE IF e = 0 THEN Ok(<<sign, 0, Rep(0, mb)>>)        \* zero and binary64 subnormals round to zero
       ELSE LET ue == e - 1023                                 \* unbiased exponent, significand 1.m
            IN IF ue + bias >= 1 THEN                          \* normal range (before rounding)
                    LET r == RoundBits(<<1>> \o m, mb + 1)     \* carry bit + (1 + mb) bits
                        carried == r[1] = 1
                        ne == IF carried THEN ue + bias + 1 ELSE ue + bias
                        nm == IF carried THEN Rep(0, mb) ELSE SubSeq(r, 3, mb + 2)
                    IN IF ne >= emax THEN Rej ELSE Ok(<<sign, ne, nm>>)
               ELSE                                             \* subnormal target: shift right by 1 - (ue + bias)
                    LET sh == 1 - (ue + bias)
                    IN IF sh > mb + 2 THEN Ok(<<sign, 0, Rep(0, mb)>>)
                       ELSE LET sig == Rep(0, sh) \o <<1>> \o m          \* 0.0001m  aligned so that first bit is the hidden-bit slot
                                r == RoundBits(sig, mb + 1)              \* carry + hidden + mb
                            IN IF r[2] = 1 THEN Ok(<<sign, 1, SubSeq(r, 3, mb + 2)>>)      \* rounded up into the normal range
                               ELSE Ok(<<sign, 0, SubSeq(r, 3, mb + 2)>>)

\* struct.pack / unpack for e, f, d in big-endian byte order
FloatPack(f, code) ==
    CASE code = "d" -> Ok(f)
      [] code = "f" -> LET n == Narrow(f, 8, 23) IN
            IF ~n.ok THEN Rej ELSE Ok(BitsToBytes(<<n.v[1]>> \o NatToBits(n.v[2], 8) \o n.v[3]))
      [] code = "e" -> LET n == Narrow(f, 5, 10) IN
            IF ~n.ok THEN Rej ELSE Ok(BitsToBytes(<<n.v[1]>> \o NatToBits(n.v[2], 5) \o n.v[3]))
FloatUnpack(bs, code) ==
    LET bits == BytesToBits(bs) IN
    CASE code = "d" -> bs
      [] code = "f" -> Widen(bits[1], BitsToNat(SubSeq(bits, 2, 9)), SubSeq(bits, 10, 32), 8)
      [] code = "e" -> Widen(bits[1], BitsToNat(SubSeq(bits, 2, 6)), SubSeq(bits, 7, 16), 5)
---------------------------------------------------------------------------
\* byte transforms, from their definitions
XorByte(a, b) == BitsByte([i \in 1..8 |-> IF ByteBits(a)[i] # ByteBits(b)[i] THEN 1 ELSE 0])
\* XOR with a key: an integer 0..255, or a byte string cycled over the data.
\* Result [ok, v]; when ~ok, v is the class of the exception today's code raises.
XorData(data, key) ==
    IF key.t = "bytes" /\ Len(key.b) # 1 THEN
        (IF key.b = <<>> THEN Ok(data)         \* the empty key counts as all-zero: data unchanged
         ELSE Ok([i \in 1..Len(data) |-> XorByte(data[i], key.b[((i - 1) % Len(key.b)) + 1])]))
    ELSE LET k == IF key.t = "bytes" THEN VInt(key.b[1]) ELSE ToIntV(key) IN
         IF IsZero(k) THEN Ok(data)
         ELSE IF data = <<>> THEN Ok(data)
         ELSE IF k.neg \/ Len(k.mag) > 1 THEN [ok |-> FALSE, v |-> "ValueError"]
         ELSE Ok([i \in 1..Len(data) |-> XorByte(data[i], k.mag[1])])
\* rotate the bit string of every `group`-byte block left by `amount` bits (any integer)
RotLBits(bits, k) == LET n == Len(bits) IN [i \in 1..n |-> bits[((i - 1 + k) % n) + 1]]
RotLData(data, amount, group) ==
    LET nb == Len(data) \div group
        k == amount - (group * 8) * (IF amount >= 0 THEN amount \div (group * 8) ELSE -((-amount + group * 8 - 1) \div (group * 8)))
    IN Flatten([j \in 1..nb |-> BitsToBytes(RotLBits(BytesToBits(SubSeq(data, (j - 1) * group + 1, j * group)), k))])

\* string helpers for FlagsEnum label lists ("a | b")
IsSpace(c) == c \in {9, 10, 11, 12, 13, 28, 29, 30, 31, 32, 133, 160}
RECURSIVE LStrip(_), SplitOn(_, _, _)
LStrip(s) == IF s # <<>> /\ IsSpace(Head(s)) THEN LStrip(Tail(s)) ELSE s
Strip(s) == Rev(LStrip(Rev(LStrip(s))))
SplitOn(s, sep, acc) == IF s = <<>> THEN <<acc>>
                        ELSE IF Head(s) = sep THEN <<acc>> \o SplitOn(Tail(s), sep, <<>>)
                        ELSE SplitOn(Tail(s), sep, Append(acc, Head(s)))
=============================================================================
