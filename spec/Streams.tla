------------------------------ MODULE Streams ------------------------------
(***************************************************************************)
(* Stream objects of the Construct Abstract Machine.                       *)
(*                                                                         *)
(*  kind "mem": io.BytesIO and its subclass BytesIOWithOffsets (base # 0   *)
(*     for a sub-stream that reports and accepts offsets of its parent),   *)
(*     and the root stream handed to parse_stream/build_stream.  The root  *)
(*     may carry a fault: the k-th operation raises ("raise"), transfers   *)
(*     one byte less ("short"), or every seek / tell raises ("noseek",     *)
(*     "notell").                                                          *)
(*  kind "rs": RestreamedBytesIO over a sub-stream (bit <-> byte regions). *)
(*                                                                         *)
(* Raw operations return [ok, v, s]; ok = FALSE means the stream object    *)
(* itself raised.  The wrapped operations (SRead ...) are construct's      *)
(* stream_read/... helpers, which turn every failure into StreamError;     *)
(* code that touches a stream without them is modelled with the raw ones.  *)
(***************************************************************************)
EXTENDS Codecs

NoFault == [k |-> 0, mode |-> "none"]
Mem(data, pos, base) == [kind |-> "mem", data |-> data, pos |-> pos, base |-> base, ops |-> 0, flt |-> NoFault]
Faulty(data, pos, flt) == [kind |-> "mem", data |-> data, pos |-> pos, base |-> 0, ops |-> 0, flt |-> flt]
Rs(sub, dec, dunit, enc, eunit) ==
    [kind |-> "rs", sub |-> sub, dec |-> dec, dunit |-> dunit, enc |-> enc, eunit |-> eunit,
     rbuf |-> <<>>, wbuf |-> <<>>, cnt |-> 0]

RECURSIVE Tell(_)
Tell(s) == IF s.kind = "mem" THEN s.pos + s.base ELSE s.cnt

\* byte-level transformation functions used by Transformed / Restreamed
ApplyFn(fn, d) ==
    CASE fn = "bytes2bits" -> Ok(BytesToBits(d))
      [] fn = "bits2bytes" -> IF Len(d) % 8 = 0 /\ (\A i \in 1..Len(d) : d[i] \in {0, 1}) THEN Ok(BitsToBytes(d)) ELSE Rej
      [] fn = "swapbitsinbytes" -> Ok(SwapBitsInBytes(d))
      [] fn = "swapbytes" -> Ok(Rev(d))
      [] fn = "id" -> Ok(d)

RawR(ok, v, s) == [ok |-> ok, v |-> v, s |-> s]
Tick(s) == [s EXCEPT !.ops = @ + 1]
Hit(s, mode) == s.flt.mode = mode /\ s.flt.k = s.ops      \* after Tick: this is the k-th operation

RECURSIVE RawRead(_, _), RsFill(_, _), RawReadAll(_), RsFillAll(_), RawWrite(_, _), RsFlush(_)
\* read(n), n >= 0
RawRead(s0, n) ==
    IF s0.kind = "mem" THEN
        LET s == Tick(s0) IN
        IF Hit(s, "raise") THEN RawR(FALSE, <<>>, s)
        ELSE LET avail == Max(0, Len(s.data) - s.pos)
                 m0 == Min(n, avail)
                 m == IF Hit(s, "short") /\ m0 > 0 THEN m0 - 1 ELSE m0
             IN RawR(TRUE, SubSeq(s.data, s.pos + 1, s.pos + m), [s EXCEPT !.pos = s.pos + m])
    ELSE LET f == RsFill(s0, n) IN
         IF ~f.ok THEN f
         ELSE IF Len(f.s.rbuf) < n THEN RawR(TRUE, <<>>, f.s)           \* substream exhausted: returns b''
         ELSE RawR(TRUE, SubSeq(f.s.rbuf, 1, n), [f.s EXCEPT !.rbuf = SubSeq(@, n + 1, Len(@)), !.cnt = @ + n])
\* pull decoder units until rbuf holds n bytes or the substream is dry
RsFill(s, n) ==
    IF Len(s.rbuf) >= n THEN RawR(TRUE, <<>>, s)
    ELSE LET d == RawRead(s.sub, s.dunit) IN
         IF ~d.ok THEN RawR(FALSE, <<>>, [s EXCEPT !.sub = d.s])
         ELSE IF d.v = <<>> THEN RawR(TRUE, <<>>, [s EXCEPT !.sub = d.s])
         ELSE LET x == ApplyFn(s.dec, d.v) IN
              IF ~x.ok THEN RawR(FALSE, <<>>, [s EXCEPT !.sub = d.s])
              ELSE RsFill([s EXCEPT !.sub = d.s, !.rbuf = @ \o x.v], n)
\* read()
RawReadAll(s0) ==
    IF s0.kind = "mem" THEN
        LET s == Tick(s0) IN
        IF Hit(s, "raise") THEN RawR(FALSE, <<>>, s)
        ELSE LET avail == Max(0, Len(s.data) - s.pos)
                 m == IF Hit(s, "short") /\ avail > 0 THEN avail - 1 ELSE avail
             IN RawR(TRUE, SubSeq(s.data, s.pos + 1, s.pos + m), [s EXCEPT !.pos = s.pos + m])
    ELSE LET f == RsFillAll(s0) IN
         IF ~f.ok THEN f
         ELSE RawR(TRUE, f.s.rbuf, [f.s EXCEPT !.rbuf = <<>>, !.cnt = @ + Len(f.s.rbuf)])
RsFillAll(s) ==
    LET d == RawRead(s.sub, s.dunit) IN
    IF ~d.ok THEN RawR(FALSE, <<>>, [s EXCEPT !.sub = d.s])
    ELSE IF d.v = <<>> THEN RawR(TRUE, <<>>, [s EXCEPT !.sub = d.s])
    ELSE LET x == ApplyFn(s.dec, d.v) IN
         IF ~x.ok THEN RawR(FALSE, <<>>, [s EXCEPT !.sub = d.s])
         ELSE RsFillAll([s EXCEPT !.sub = d.s, !.rbuf = @ \o x.v])

\* write(d): returns the count the stream reports
MemPut(data, pos, d) ==     \* BytesIO semantics: zero-fill a gap, overwrite, extend; writing nothing changes nothing
    IF d = <<>> THEN data ELSE
    LET padded == IF pos > Len(data) THEN data \o Rep(0, pos - Len(data)) ELSE data
    IN SubSeq(padded, 1, pos) \o d \o SubSeq(padded, pos + Len(d) + 1, Len(padded))
RawWrite(s0, d) ==
    IF s0.kind = "mem" THEN
        LET s == Tick(s0) IN
        IF Hit(s, "raise") THEN RawR(FALSE, 0, s)
        ELSE LET m == IF Hit(s, "short") /\ Len(d) > 0 THEN Len(d) - 1 ELSE Len(d)
                 dd == SubSeq(d, 1, m)
             IN RawR(TRUE, m, [s EXCEPT !.data = MemPut(s.data, s.pos, dd), !.pos = s.pos + m])
    ELSE LET f == RsFlush([s0 EXCEPT !.wbuf = @ \o d]) IN
         IF ~f.ok THEN f ELSE RawR(TRUE, Len(d), [f.s EXCEPT !.cnt = @ + Len(d)])
RsFlush(s) ==
    IF Len(s.wbuf) < s.eunit THEN RawR(TRUE, 0, s)
    ELSE LET x == ApplyFn(s.enc, SubSeq(s.wbuf, 1, s.eunit)) IN
         IF ~x.ok THEN RawR(FALSE, 0, s)
         ELSE LET w == RawWrite(s.sub, x.v) IN
              IF ~w.ok \/ w.v # Len(x.v) THEN RawR(FALSE, 0, [s EXCEPT !.sub = w.s])      \* raised, or wrote short
              ELSE RsFlush([s EXCEPT !.sub = w.s, !.wbuf = SubSeq(@, s.eunit + 1, Len(@))])

\* seek(off, whence): v = what seek() returns
RawSeek(s0, off, whence) ==
    IF s0.kind = "mem" THEN
        LET s == Tick(s0) IN
        IF Hit(s, "raise") \/ s.flt.mode = "noseek" THEN RawR(FALSE, 0, s)
        ELSE IF whence = 0 THEN
             (IF off - s.base < 0 THEN RawR(FALSE, 0, s)
              ELSE RawR(TRUE, off, [s EXCEPT !.pos = off - s.base]))
        ELSE IF whence = 1 THEN
             LET p == Max(0, s.pos + off) IN RawR(TRUE, p + s.base, [s EXCEPT !.pos = p])
        ELSE IF whence = 2 THEN
             LET p == Max(0, Len(s.data) + off) IN RawR(TRUE, p + s.base, [s EXCEPT !.pos = p])
        ELSE RawR(FALSE, 0, s)
    ELSE IF whence = 0 /\ off = s0.cnt THEN RawR(TRUE, -1, s0)       \* returns None
         ELSE RawR(FALSE, 0, s0)
RawTell(s0) ==
    IF s0.kind = "mem" THEN
        LET s == Tick(s0) IN
        IF Hit(s, "raise") \/ s.flt.mode = "notell" THEN RawR(FALSE, 0, s)
        ELSE RawR(TRUE, s.pos + s.base, s)
    ELSE RawR(TRUE, s0.cnt, s0)
\* RestreamedBytesIO.close(): raises ValueError when a partial unit is left
RsCloseOk(s) == s.rbuf = <<>> /\ s.wbuf = <<>>
=============================================================================
