------------------------------- MODULE MC_C17 -------------------------------
EXTENDS Session, IOUtils
Control == "MC_CONTROL" \in DOMAIN IOEnv /\ IOEnv.MC_CONTROL = "1"
R(nm, cps, sub) == [k |-> "Renamed", name |-> nm, ncp |-> cps, sub |-> sub]
ByteN == AliasTable["Byte"]
FlagN == [k |-> "Flag"]
\* two constructs sharing the members ByteN and FlagN (as users share the module singletons)
MCPool == << [k |-> "Struct", subs |-> <<R("a", <<97>>, ByteN), R("f", <<102>>, FlagN)>>],
             [k |-> "Sequence", subs |-> <<FlagN, [k |-> "Array", count |-> CInt(1), discard |-> FALSE, sub |-> ByteN]>>] >>
NoKw == VEmptyDict
MCCalls == { [pi |-> 1, op |-> "parse", data |-> <<5, 1>>, start |-> 0, kw |-> NoKw, arg |-> VNone],
             [pi |-> 1, op |-> "parse", data |-> <<5>>, start |-> 0, kw |-> NoKw, arg |-> VNone],
             [pi |-> 2, op |-> "parse", data |-> <<0, 7>>, start |-> 0, kw |-> NoKw, arg |-> VNone],
             [pi |-> 2, op |-> "build", data |-> <<>>, start |-> 0, kw |-> NoKw, arg |-> VList(<<VBool(TRUE), VList(<<VInt(3)>>)>>)],
             [pi |-> 1, op |-> "sizeof", data |-> <<>>, start |-> 0, kw |-> NoKw, arg |-> VNone] }
MCThreads == 2
MCMemo == Control
=============================================================================
