"""Case collection, sharding and parallel TLC validation."""
import json, os, concurrent.futures as cf, hashlib, time
from . import values as V, tlc

NOFAULT = {"k": 0, "mode": "none"}

def pkey(ast):
    return hashlib.sha1(json.dumps(ast, sort_keys=True, default=str).encode()).hexdigest()

class Meta:
    """id -> what a replay needs ({"prog", "case", "tag"} for a call, {"clause", "calls", "tag", "x"} for a session). Calls of flushed
    shards are read back from the shard file on demand (one shard cached), so a thorough run does not hold every recording in memory."""
    def __init__(self):
        self.live = {}
        self.where = {}         # call id -> (shard path, index, tag)
        self._cache = (None, None)
    def __setitem__(self, k, v):
        self.live[k] = v
    def flushed(self, path, cases):
        for i, c in enumerate(cases):
            e = self.live.pop(c["id"], None)
            if e is not None:
                self.where[c["id"]] = (path, i, e.get("tag"))
    def _load(self, path):
        if self._cache[0] != path:
            with open(path) as f:
                self._cache = (path, json.load(f))
        return self._cache[1]
    def __getitem__(self, k):
        if k in self.live:
            return self.live[k]
        path, i, tag = self.where[k]
        doc = self._load(path)
        c = doc["cases"][i]
        return {"prog": doc["progs"][c["pi"] - 1], "case": c, "tag": tag}
    def get(self, k, default=None):
        return self[k] if k in self else default
    def __contains__(self, k):
        return k in self.live or k in self.where
    def __len__(self):
        return len(self.live) + len(self.where)
    def keys(self):
        return list(self.where) + list(self.live)
    def __iter__(self):
        return iter(self.keys())
    def items(self):
        for k in self.keys():
            yield k, self[k]
    def values(self):
        for k in self.keys():
            yield self[k]

class Shards:
    """accumulates recorded calls and writes them as JSON shards with a shared program table"""
    def __init__(self, scratch, prefix="shard", shard_size=1200, strict=False):
        self.scratch = scratch
        self.prefix = prefix
        self.shard_size = shard_size
        self.strict = strict
        self.paths = []
        self.n = 0
        self.meta = Meta()      # id -> (prog ast, case): what a replay needs
        self._reset()
        os.makedirs(scratch, exist_ok=True)

    def _reset(self):
        self.progs = []
        self.pidx = {}
        self.cases = []
        self.sessions = []

    def add(self, prog, call, kw=None, data=b"", start=0, arg=None, fault=None, tag=None, keep=True):
        """call: result of tracer.run_parse / run_build / run_sizeof"""
        key = pkey(prog)
        pi = self.pidx.get(key)
        if pi is None:
            self.progs.append(prog)
            pi = self.pidx[key] = len(self.progs)
        self.n += 1
        cid = "%s-%d" % (self.prefix, self.n)
        if len(call["events"]) > 1200:          # keep shards loadable: the call is kept for the session predicates, its trace is not validated
            call = dict(call, events=[])
            oversize = True
        else:
            oversize = False
        case = {"id": cid, "pi": pi, "op": call["op"], "data": list(data), "start": start,
                "kw": V.enc(kw or {}), "flt": fault or NOFAULT, "arg": arg if arg is not None else V.VNone(),
                "events": call["events"], "res": call["res"]}
        if oversize:
            case["skip"] = True
        self.cases.append(case)
        if keep:
            self.meta[cid] = {"prog": prog, "case": case, "tag": tag}
        return len(self.cases)          # 1-based index within the current shard

    def session(self, clause, idxs, tag=None, x=None):
        "a property predicate over several calls of the current shard (indices returned by add); x: extra recorded data"
        self.n += 1
        sid = "%s-S%d" % (self.prefix, self.n)
        rec = {"id": sid, "clause": clause, "cs": list(idxs)}
        if x is not None:
            rec["x"] = x
        self.sessions.append(rec)
        self.meta[sid] = {"clause": clause, "calls": [self.cases[i - 1]["id"] for i in idxs], "tag": tag, "x": x}
        return sid

    def maybe_flush(self):
        "call between sessions"
        if len(self.cases) >= self.shard_size:
            self.flush()

    def flush(self):
        if not self.cases:
            return
        path = os.path.join(self.scratch, "%s_%04d.json" % (self.prefix, len(self.paths)))
        with open(path, "w") as f:
            json.dump({"progs": self.progs, "cases": self.cases, "sessions": self.sessions, "strict": self.strict, "done": []}, f, separators=(",", ":"))
        self.paths.append(path)
        self.meta.flushed(path, self.cases)
        self._reset()

def validate(paths, jvms=8, workers=2, scratch=None, timeout=3600, module="Trace"):
    """validate shards with TLC, several JVMs in parallel. Returns (verdicts, stats)"""
    verdicts = []
    stats = {"generated": 0, "distinct": 0, "tlc_runs": 0, "tlc_wall_s": 0.0}
    t0 = time.time()
    with cf.ThreadPoolExecutor(max_workers=jvms) as ex:
        futs = {ex.submit(tlc.validate_shard, p, workers, timeout, scratch, 25, module): p for p in paths}
        for fu in cf.as_completed(futs):
            vs, st = fu.result()
            p = futs[fu]
            with open(p) as f:
                txt = f.read()
                ncases = txt.count('"runs":') if module == "TraceExpr" else txt.count('"kind":"h') if module == "TraceC20" else txt.count('"members":') if module == "TraceKsy" else txt.count('"events":') + (txt.count('"clause":') if module == "Trace" else 0)
            if len(vs) != ncases:
                raise tlc.MachineryError("shard %s: %d cases but %d verdicts" % (p, ncases, len(vs)))
            verdicts.extend(vs)
            stats["generated"] += st["generated"]; stats["distinct"] += st["distinct"]; stats["tlc_runs"] += 1
    stats["tlc_wall_s"] = time.time() - t0
    return verdicts, stats
