"""Recording campaigns shared by the property checks, and the judgement of TLC verdicts."""
import json, os
from . import ast as A, tracer, values as V, gen, pipeline, tlc

REALIZED = {"ok": 0, "failed": 0, "examples": []}
def realizable(prog):
    "the real construct object for a program, or None when the library refuses to construct it (counted: a check whose programs mostly fail is vacuous)"
    try:
        con = A.realize(prog)
        REALIZED["ok"] += 1
        return con
    except Exception as e:
        REALIZED["failed"] += 1
        if len(REALIZED["examples"]) < 3:
            REALIZED["examples"].append("%s: %s" % (prog.get("k"), repr(e)[:120]))
        return None

class Campaign:
    def __init__(self, ctx, prefix="c", strict=False, shard_size=900):
        self.ctx = ctx
        self.sh = pipeline.Shards(os.path.join(ctx.scratch, prefix), prefix, shard_size=shard_size, strict=strict)
        self.rec = None
        self.nprog = 0
        self.unrealizable = 0

    # ---- primitive recorded calls
    def parse(self, prog, con, data, start=0, kw=None, fault=None, tag=None):
        call = tracer.run_parse(self.rec, con, data, start, kw, fault)
        return self.sh.add(prog, call, kw, data, start, None, fault, tag), call
    def build(self, prog, con, obj, pre=b"", kw=None, fault=None, tag=None, arg=None):
        call = tracer.run_build(self.rec, con, obj, pre, kw, fault)
        return self.sh.add(prog, call, kw, pre, 0, arg if arg is not None else V.enc(obj), fault, tag), call
    def sizeof(self, prog, con, kw=None, tag=None):
        call = tracer.run_sizeof(self.rec, con, kw)
        return self.sh.add(prog, call, kw, b"", 0, None, None, tag), call

    # ---- composite sessions
    def roundtrip_from_value(self, prog, con, obj, kw, clauses=("C01.sym", "C02.self")):
        "build(v); parse(bytes); build(parsed)"
        ib, b = self.build(prog, con, obj, b"", kw, tag="value")
        out = []
        if b["res"]["ok"]:
            data = bytes(b["res"]["v"]["b"])
            ip, p = self.parse(prog, con, data, 0, kw, tag="canonical")
            if "C01.sym" in clauses:
                self.sh.session("C01.sym", [ib, ip])
            if p["res"]["ok"] and "C02.self" in clauses:
                try:
                    v2 = V.dec(p["res"]["v"])
                except Exception:
                    v2 = None
                else:
                    ib2, b2 = self.build(prog, con, v2, b"", kw, tag="rebuilt", arg=p["res"]["v"])
                    self.sh.session("C02.self", [ib, ip, ib2])
            out.append(data)
        return out

    def roundtrip_from_bytes(self, prog, con, data, kw):
        "parse(b); build; parse; build  (C02.canon)"
        ip1, p1 = self.parse(prog, con, data, 0, kw, tag="input")
        if not p1["res"]["ok"]:
            return
        try:
            v1 = V.dec(p1["res"]["v"])
        except Exception:
            return
        ib2, b2 = self.build(prog, con, v1, b"", kw, tag="rebuilt", arg=p1["res"]["v"])
        if not b2["res"]["ok"]:
            self.sh.session("C02.canon", [ip1, ib2, ip1, ib2])
            return
        ip2, p2 = self.parse(prog, con, bytes(b2["res"]["v"]["b"]), 0, kw, tag="canonical")
        if not p2["res"]["ok"]:
            self.sh.session("C02.canon", [ip1, ib2, ip2, ib2])
            return
        try:
            v2 = V.dec(p2["res"]["v"])
        except Exception:
            return
        ib3, b3 = self.build(prog, con, v2, b"", kw, tag="rebuilt2", arg=p2["res"]["v"])
        self.sh.session("C02.canon", [ip1, ib2, ip2, ib3])

    def __enter__(self):
        self._r = tracer.Recorder()
        self.rec = self._r.__enter__()
        return self
    def __exit__(self, *a):
        self._r.__exit__(*a)

    # ---- validation and judgement
    def validate(self):
        self.sh.flush()
        ctx = self.ctx
        vs, stats = pipeline.validate(self.sh.paths, jvms=ctx.jvms, workers=ctx.workers, scratch=ctx.scratch)
        ctx.add_tlc(stats)
        return vs

def kind_of(v):
    """what disagrees: an event-level fact (value, position, status, argument, error class), or - when only the
    structure of the event tree differs (a refactoring may legitimately do that) - the call's observable result"""
    why = v["why"]
    if why in ("event-kind", "length", ""):
        return "result:" + v["rd"] if v.get("rd") else "structure"
    return why

def validate_cam(camp):
    "replay the recorded calls through the pushdown machine (spec/CAM.tla): machine-level clauses"
    camp.sh.flush()
    ctx = camp.ctx
    vs, stats = pipeline.validate(camp.sh.paths, jvms=ctx.jvms, workers=ctx.workers, scratch=ctx.scratch, module="CAM")
    ctx.add_tlc(stats)
    return vs

def judge_cam(ctx, camp, verdicts, prefixes):
    """verdicts of CAM.tla; a violation is a failed clause whose name starts with one of `prefixes`"""
    sh = camp.sh
    spec_errors = [v for v in verdicts if v["st"] == "spec-error"]
    n = 0
    hits = {}
    for v in verdicts:
        if v["st"] != "fail":
            continue
        m = sh.meta.get(v["id"], {})
        for f in v["fails"]:
            if any(f["clause"].startswith(p) for p in prefixes):
                n += 1
                hits[f["clause"]] = hits.get(f["clause"], 0) + 1
                c = m["case"]
                ctx.report(f["clause"], {"node": f["node"], "op": c["op"]},
                           {"kind": "call", "prog": m["prog"], "call": {k: c[k] for k in ("op", "data", "start", "kw", "arg", "flt")},
                            "recorded": {"events": c["events"], "res": c["res"]}, "verdict": {"clause": f["clause"], "at": f["at"], "node": f["node"]}})
    ctx.cov["evaluations"] += len(verdicts)
    ctx.cov["traces_validated_against_impl"] += sum(1 for v in verdicts if v["st"] in ("ok", "fail"))
    ctx.cov.setdefault("machine_clause_failures", {}).update(hits)
    if spec_errors:
        raise tlc.MachineryError("%d TLC evaluation errors in CAM replay, e.g. %s" % (len(spec_errors), spec_errors[0]["why"]))
    return n

def sig_of_case(v, meta):
    case = meta["case"]
    return {"why": kind_of(v), "op": case["op"], "node": v["exp"]["k"] if v["exp"]["k"] != "-" else v["got"]["k"],
            "exp": "ok" if v["exp"]["ok"] else v["exp"]["err"], "got": "ok" if v["got"]["ok"] else v["got"]["err"]}

def payload_of(sh, v):
    m = sh.meta.get(v["id"], {})
    if "case" in m:
        c = m["case"]
        return {"kind": "call", "prog": m["prog"], "call": {k: c[k] for k in ("op", "data", "start", "kw", "arg", "flt")},
                "recorded": {"events": c["events"], "res": c["res"]}, "verdict": v}
    calls = []
    prog = None
    for cid in m.get("calls", []):
        cm = sh.meta[cid]
        if prog is None or prog.get("k") == "Opaque":
            prog = cm["prog"]
        c = cm["case"]
        calls.append({k: c[k] for k in ("op", "data", "start", "kw", "arg", "flt", "res")})
    return {"kind": "session", "clause": m.get("clause"), "prog": prog, "calls": calls, "x": m.get("x"), "tag": m.get("tag"), "verdict": v}

def judge(ctx, camp, verdicts, conformance=None, clauses=(), nontrivial=None):
    """conformance: None or a predicate (verdict, meta) -> bool selecting the mismatches that are violations of
    *this* property; clauses: the session clauses that belong to this property."""
    sh = camp.sh
    spec_errors = []
    counts = {"ok": 0, "mismatch": 0, "skipped": 0, "na": 0, "fail": 0, "spec-error": 0, "mismatch_other_property": 0}
    for v in verdicts:
        st = v["st"]
        counts[st] = counts.get(st, 0) + 1
        m = sh.meta.get(v["id"], {})
        if st == "spec-error":
            spec_errors.append(v)
        elif st == "mismatch":
            if kind_of(v) == "structure":
                counts["structure_differs"] = counts.get("structure_differs", 0) + 1
            elif conformance is not None and conformance(v, m):
                ctx.report("conformance:" + kind_of(v), sig_of_case(v, m), payload_of(sh, v))
            else:
                counts["mismatch_other_property"] += 1
        elif st == "fail":
            if v["why"] in clauses:
                pl = payload_of(sh, v)
                kinds = sorted({n["k"] for n in A.walk(pl["prog"])}) if pl.get("prog") else []
                ctx.report(v["why"], {"why": v["why"], "kinds": kinds}, pl)
        if st in ("ok", "na", "fail", "mismatch"):
            if "case" in m:
                ctx.cov["traces_validated_against_impl"] += 1
    ctx.cov["evaluations"] += len(verdicts)
    ctx.cov["skipped_out_of_model"] += counts["skipped"]
    ctx.cov.setdefault("verdicts", {})
    for k, n in counts.items():
        ctx.cov["verdicts"][k] = ctx.cov["verdicts"].get(k, 0) + n
    if spec_errors:
        raise tlc.MachineryError("%d TLC evaluation errors, e.g. %s on %s" % (
            len(spec_errors), spec_errors[0]["why"], json.dumps(payload_of(sh, spec_errors[0]).get("prog"))[:400]))
    return counts


def replay(ctx, path):
    """re-run the calls of a replay file on the real library and have TLC judge them again (Trace.tla and CAM.tla);
    returns True if the recorded violation shows again"""
    with open(path) as f:
        doc = json.load(f)
    pl = doc["payload"]
    sig = doc.get("signature", {})
    if pl.get("kind") not in ("call", "session") or not pl.get("prog") or pl["prog"].get("k") == "Opaque":
        return None
    calls = [dict(pl["call"], res=pl["recorded"]["res"])] if pl["kind"] == "call" else pl["calls"]
    con = A.realize(pl["prog"])
    with Campaign(ctx, "replay") as camp:
        idxs = []
        for c in calls:
            kw = V.dec(c["kw"])
            flt = c["flt"] if c["flt"].get("mode") != "none" or c["flt"].get("k") else None
            if c["op"] == "parse":
                i, _ = camp.parse(pl["prog"], con, bytes(c["data"]), c["start"], kw, flt)
            elif c["op"] == "build":
                try:
                    obj = V.dec(c["arg"])
                except Exception:
                    return None
                i, _ = camp.build(pl["prog"], con, obj, bytes(c["data"]), kw, flt, arg=c["arg"])
            else:
                i, _ = camp.sizeof(pl["prog"], con, kw)
            idxs.append(i)
        if pl["kind"] == "session":
            camp.sh.session(pl["clause"], idxs, x=pl.get("x"))
        vs = camp.validate()
        cvs = validate_cam(camp)
    again = False
    for v in vs:
        print("replay: %s %s %s" % (v["id"], v["st"], v.get("why", "")))
        if v["st"] in ("mismatch", "fail") and (v.get("why") == sig.get("clause") or kind_of(v) == sig.get("why") or v["st"] == "fail"):
            again = True
    for v in cvs:
        for f in v.get("fails", []):
            print("replay: machine clause %s at event %s (%s)" % (f["clause"], f["at"], f["node"]))
            if f["clause"] == sig.get("clause"):
                again = True
    return again
