"""Program ASTs shared by the TLA+ specification and the harness.

A node is a dict {"k": ClassName, ...parameters...} in the *surface syntax* of the library
(macros such as PaddedString, Optional, Bitwise and the Int*/Float* aliases are nodes of their own;
spec/Sem.tla `Expand` says what each is documented to build).  `realize` builds the real object
through the library's public constructors, so the code expands its own macros.
"""
from . import values as V

# ---------------------------------------------------------------- expressions
def C(v):
    "constant (a Python value or an already tagged value)"
    return {"x": "const", "v": v if isinstance(v, dict) and "t" in v else V.enc(v)}
This = {"x": "this"}
Obj = {"x": "obj"}
Lst = {"x": "list"}
def Item(o, n): return {"x": "item", "o": o, "n": n}
def Idx(o, i): return {"x": "idx", "o": o, "i": i}
def T(*path):
    "this.a.b.c"
    e = This
    for p in path:
        e = Item(e, p)
    return e
def Bin(op, l, r): return {"x": "bin", "op": op, "l": l, "r": r}
def Uni(op, a): return {"x": "uni", "op": op, "a": a}
def Func(f, a): return {"x": "func", "f": f, "a": a}
def asexpr(e):
    return e if isinstance(e, dict) and "x" in e else C(e)

_BIN = {"+": lambda a, b: a + b, "-": lambda a, b: a - b, "*": lambda a, b: a * b, "/": lambda a, b: a / b,
        "//": lambda a, b: a // b, "%": lambda a, b: a % b, "**": lambda a, b: a ** b, "^": lambda a, b: a ^ b,
        "<<": lambda a, b: a << b, ">>": lambda a, b: a >> b, "&": lambda a, b: a & b, "|": lambda a, b: a | b,
        "<": lambda a, b: a < b, "<=": lambda a, b: a <= b, ">": lambda a, b: a > b, ">=": lambda a, b: a >= b,
        "==": lambda a, b: a == b, "!=": lambda a, b: a != b}
_UNI = {"-": lambda a: -a, "+": lambda a: +a, "not": lambda a: ~a}

def is_const(e):
    return e["x"] == "const"

def realize_expr(e):
    """expression AST -> what a user would write: a constant, or an expression object built with the
    real overloads of this / obj_ / list_ / len_ ..."""
    import construct as cs
    x = e["x"]
    if x == "const":
        return V.dec(e["v"])
    if x == "this":
        return cs.this
    if x == "obj":
        return cs.obj_
    if x == "list":
        return cs.list_
    if x == "item":
        return getattr(realize_expr(e["o"]), e["n"]) if e.get("attr", True) and e["n"].isidentifier() else realize_expr(e["o"])[e["n"]]
    if x == "idx":
        return realize_expr(e["o"])[e["i"]]
    if x == "bin":
        return _BIN[e["op"]](realize_expr(e["l"]), realize_expr(e["r"]))
    if x == "uni":
        return _UNI[e["op"]](realize_expr(e["a"]))
    if x == "func":
        f = {"len": cs.len_, "sum": cs.sum_, "min": cs.min_, "max": cs.max_, "abs": cs.abs_}[e["f"]]
        return f(realize_expr(e["a"]))
    raise ValueError(x)

# ---------------------------------------------------------------- nodes
def N(k, **kw):
    d = {"k": k}
    d.update(kw)
    return d

def Bytes(n): return N("Bytes", len=asexpr(n))
GreedyBytes = N("GreedyBytes")
def FormatField(en, fc): return N("FormatField", en=en, fc=fc)
def BytesInteger(n, signed=False, swapped=False): return N("BytesInteger", len=asexpr(n), signed=signed, swapped=asexpr(swapped))
def BitsInteger(n, signed=False, swapped=False): return N("BitsInteger", len=asexpr(n), signed=signed, swapped=asexpr(swapped))
VarInt = N("VarInt")
ZigZag = N("ZigZag")
def StringEncoded(sub, enc): return N("StringEncoded", sub=sub, enc=enc)
Flag = N("Flag")
def Enum(sub, **m): return N("Enum", sub=sub, names=[[ord(c) for c in k] for k in m], vals=[V.enc(v) for v in m.values()])
def FlagsEnum(sub, **m): return N("FlagsEnum", sub=sub, names=list(m), ncps=[[ord(c) for c in k] for k in m], vals=[V.enc(v) for v in m.values()])
def Mapping(sub, pairs): return N("Mapping", sub=sub, mk=[V.enc(k) for k, _ in pairs], mv=[V.enc(v) for _, v in pairs])
def Struct(*subs): return N("Struct", subs=list(subs))
def Sequence(*subs): return N("Sequence", subs=list(subs))
def Array(count, sub, discard=False): return N("Array", count=asexpr(count), sub=sub, discard=discard)
def GreedyRange(sub, discard=False): return N("GreedyRange", sub=sub, discard=discard)
def RepeatUntil(pred, sub, discard=False): return N("RepeatUntil", pred=asexpr(pred), sub=sub, discard=discard)
def Renamed(name, sub): return N("Renamed", name=name, ncp=[ord(c) for c in name], sub=sub)
def Const(val, sub=None):
    v = V.enc(val) if not (isinstance(val, dict) and "t" in val) else val
    if sub is None:
        sub = Bytes(len(val))
    return N("Const", val=v, sub=sub)
def Computed(f): return N("Computed", f=asexpr(f))
Index = N("Index")
def Rebuild(sub, f): return N("Rebuild", sub=sub, f=asexpr(f))
def Default(sub, val): return N("Default", sub=sub, val=asexpr(val))
def Check(f): return N("Check", f=asexpr(f))
Error = N("Error")
def FocusedSeq(sel, *subs): return N("FocusedSeq", sel=asexpr(sel), subs=list(subs))
def Union(parsefrom, *subs): return N("Union", **{"from": asexpr(parsefrom)}, subs=list(subs))
def Select(*subs): return N("Select", subs=list(subs))
def IfThenElse(cond, then, els): return N("IfThenElse", cond=asexpr(cond), then=then, **{"else": els})
def Switch(key, cases, default=None): return N("Switch", key=asexpr(key), ck=[V.enc(k) for k, _ in cases], cv=[v for _, v in cases], default=default if default is not None else Pass)
def StopIf(cond): return N("StopIf", cond=asexpr(cond))
def Padded(n, sub, pat=0): return N("Padded", len=asexpr(n), sub=sub, pat=pat)
def Aligned(m, sub, pat=0): return N("Aligned", mod=asexpr(m), sub=sub, pat=pat)
def Pointer(off, sub): return N("Pointer", off=asexpr(off), sub=sub)
def Peek(sub): return N("Peek", sub=sub)
def OffsettedEnd(end, sub): return N("OffsettedEnd", end=asexpr(end), sub=sub)
def Seek(at, whence=0): return N("Seek", at=asexpr(at), whence=asexpr(whence))
Tell = N("Tell")
Pass = N("Pass")
Terminated = N("Terminated")
def RawCopy(sub): return N("RawCopy", sub=sub)
def Prefixed(lenf, sub, incl=False): return N("Prefixed", lenf=lenf, sub=sub, incl=incl)
def FixedSized(n, sub): return N("FixedSized", len=asexpr(n), sub=sub)
def NullTerminated(sub, term=b"\x00", include=False, consume=True, require=True):
    return N("NullTerminated", sub=sub, term=list(term), include=include, consume=consume, require=require)
def NullStripped(sub, pad=b"\x00"): return N("NullStripped", sub=sub, pad=list(pad))
def Transformed(sub, dec, damt, enc, eamt): return N("Transformed", sub=sub, dec=dec, damt=-1 if damt is None else damt, enc=enc, eamt=-1 if eamt is None else eamt)
def Restreamed(sub, dec, dunit, enc, eunit, sizec): return N("Restreamed", sub=sub, dec=dec, dunit=dunit, enc=enc, eunit=eunit, sizec=sizec)
def ProcessXor(key, sub): return N("ProcessXor", key=asexpr(key), sub=sub)
def ProcessRotateLeft(amount, group, sub): return N("ProcessRotateLeft", amount=asexpr(amount), group=asexpr(group), sub=sub)
def Checksum(field, hashname, over): return N("Checksum", field=field, hash=hashname, over=asexpr(over), hk=[], hv=[])
def ExprValidator(sub, f): return N("ExprValidator", sub=sub, mode="expr", f=asexpr(f))
def Rec(name, sub): return N("Rec", name=name, sub=sub)      # binds a name for LazyBound(name) below it; not a construct
def LazyBound(ref): return N("LazyBound", ref=ref)
def Indexing(sub, count, index, empty=None): return N("Indexing", sub=sub, count=V.enc(count), index=V.enc(index), empty=V.enc(empty))
def Slicing(sub, count, start, stop, step=1, empty=None): return N("Slicing", sub=sub, count=V.enc(count), start=V.enc(start), stop=V.enc(stop), step=step, empty=V.enc(empty))
def Hex(sub): return N("Hex", sub=sub)
def HexDump(sub): return N("HexDump", sub=sub)
# macros / aliases
def Alias(name): return N("Alias", name=name)
def PaddedString(n, enc): return N("PaddedString", len=asexpr(n), enc=enc)
def PascalString(lenf, enc): return N("PascalString", lenf=lenf, enc=enc)
def CString(enc): return N("CString", enc=enc)
def GreedyString(enc): return N("GreedyString", enc=enc)
def Optional(sub): return N("Optional", sub=sub)
def If(cond, sub): return N("If", cond=asexpr(cond), sub=sub)
def Padding(n, pat=0): return N("Padding", len=asexpr(n), pat=pat)
def PrefixedArray(cf, sub): return N("PrefixedArray", cf=cf, sub=sub)
def BitStruct(*subs): return N("BitStruct", subs=list(subs))
def AlignedStruct(m, *subs): return N("AlignedStruct", mod=asexpr(m), subs=list(subs))
def Bitwise(sub): return N("Bitwise", sub=sub)
def Bytewise(sub): return N("Bytewise", sub=sub)
def ByteSwapped(sub): return N("ByteSwapped", sub=sub)
def BitsSwapped(sub): return N("BitsSwapped", sub=sub)
def Compressed(sub, codec): return N("Compressed", sub=sub, codec=codec, ek=[], ev=[], dk=[], dv=[])
def OneOf(sub, vals): return N("OneOf", sub=sub, vals=[V.enc(v) for v in vals])
def NoneOf(sub, vals): return N("NoneOf", sub=sub, vals=[V.enc(v) for v in vals])

ALIASES = ["Int8ub", "Int16ub", "Int32ub", "Int64ub", "Int8sb", "Int16sb", "Int32sb", "Int64sb",
           "Int8ul", "Int16ul", "Int32ul", "Int64ul", "Int8sl", "Int16sl", "Int32sl", "Int64sl",
           "Int8un", "Int16un", "Int32un", "Int64un", "Int8sn", "Int16sn", "Int32sn", "Int64sn",
           "Byte", "Short", "Int", "Long", "Float16b", "Float16l", "Float16n", "Float32b", "Float32l", "Float32n",
           "Float64b", "Float64l", "Float64n", "Half", "Single", "Double",
           "Int24ub", "Int24ul", "Int24un", "Int24sb", "Int24sl", "Int24sn", "Bit", "Nibble", "Octet"]

_FN = None
def _fn(name):
    import construct.lib as L
    return {"bytes2bits": L.bytes2bits, "bits2bytes": L.bits2bytes, "swapbitsinbytes": L.swapbitsinbytes,
            "swapbytes": L.swapbytes, "id": (lambda d: d)}[name]
_SIZEC = {"div8": lambda n: n // 8, "mul8": lambda n: n * 8, "id": lambda n: n, "none": None}

HASHES = {}
def _hashes():
    import hashlib, zlib
    if not HASHES:
        HASHES.update({
            "sha1": lambda d: hashlib.sha1(d).digest(),
            "md5": lambda d: hashlib.md5(d).digest(),
            "sha256_8": lambda d: hashlib.sha256(d).digest()[:8],
            "crc32": lambda d: zlib.crc32(d) & 0xffffffff,
            "sum8": lambda d: sum(d) & 0xff,
            "adler16": lambda d: (zlib.adler32(d) & 0xffff),
            "sha256_i64": lambda d: int.from_bytes(hashlib.sha256(d).digest()[:8], "big"),
            "sha256_i48": lambda d: int.from_bytes(hashlib.sha256(d).digest()[:6], "big"),
        })
    return HASHES

def prime_hashes(prog, datas):
    """enter hash(data) for the given byte strings into the graph of every Checksum node of the program: what the specification needs to
    know about the (uninterpreted) hash function must not depend on which data the implementation happened to hash"""
    for node in walk(prog):
        if node.get("k") == "Checksum":
            h = _hashes()[node["hash"]]
            for data in datas:
                kd = V.enc(bytes(data))
                if kd not in node["hk"]:
                    node["hk"].append(kd); node["hv"].append(V.enc(h(bytes(data))))

_REC = {}
def realize(n):
    """AST -> live construct object, through the public API only."""
    import construct as cs
    k = n["k"]
    R = realize
    E = realize_expr
    if k == "Bytes": return cs.Bytes(E(n["len"]))
    if k == "GreedyBytes": return cs.GreedyBytes
    if k == "FormatField": return cs.FormatField(n["en"], n["fc"])
    if k == "BytesInteger": return cs.BytesInteger(E(n["len"]), signed=n["signed"], swapped=E(n["swapped"]))
    if k == "BitsInteger": return cs.BitsInteger(E(n["len"]), signed=n["signed"], swapped=E(n["swapped"]))
    if k == "VarInt": return cs.VarInt
    if k == "ZigZag": return cs.ZigZag
    if k == "StringEncoded": return cs.StringEncoded(R(n["sub"]), n["enc"])
    if k == "Flag": return cs.Flag
    if k == "Enum":
        return cs.Enum(R(n["sub"]), **{"".join(map(chr, nm)): V.dec(v) for nm, v in zip(n["names"], n["vals"])})
    if k == "FlagsEnum":
        return cs.FlagsEnum(R(n["sub"]), **{nm: V.dec(v) for nm, v in zip(n["names"], n["vals"])})
    if k == "Mapping":
        return cs.Mapping(R(n["sub"]), {_hashable(V.dec(a)): V.dec(b) for a, b in zip(n["mk"], n["mv"])})
    if k == "Struct": return cs.Struct(*[R(s) for s in n["subs"]])
    if k == "Sequence": return cs.Sequence(*[R(s) for s in n["subs"]])
    if k == "Array": return cs.Array(E(n["count"]), R(n["sub"]), discard=n["discard"])
    if k == "GreedyRange": return cs.GreedyRange(R(n["sub"]), discard=n["discard"])
    if k == "RepeatUntil": return cs.RepeatUntil(E(n["pred"]), R(n["sub"]), discard=n["discard"])
    if k == "Renamed": return n["name"] / R(n["sub"])
    if k == "Const": return cs.Const(V.dec(n["val"]), R(n["sub"]))
    if k == "Computed": return cs.Computed(E(n["f"]))
    if k == "Index": return cs.Index
    if k == "Rebuild": return cs.Rebuild(R(n["sub"]), E(n["f"]))
    if k == "Default": return cs.Default(R(n["sub"]), E(n["val"]))
    if k == "Check": return cs.Check(E(n["f"]))
    if k == "Error": return cs.Error
    if k == "FocusedSeq": return cs.FocusedSeq(E(n["sel"]), *[R(s) for s in n["subs"]])
    if k == "Union": return cs.Union(E(n["from"]), *[R(s) for s in n["subs"]])
    if k == "Select": return cs.Select(*[R(s) for s in n["subs"]])
    if k == "IfThenElse": return cs.IfThenElse(E(n["cond"]), R(n["then"]), R(n["else"]))
    if k == "Switch":
        return cs.Switch(E(n["key"]), {_hashable(V.dec(a)): R(b) for a, b in zip(n["ck"], n["cv"])}, default=R(n["default"]))
    if k == "StopIf": return cs.StopIf(E(n["cond"]))
    if k == "Padded": return cs.Padded(E(n["len"]), R(n["sub"]), pattern=bytes([n["pat"]]))
    if k == "Aligned": return cs.Aligned(E(n["mod"]), R(n["sub"]), pattern=bytes([n["pat"]]))
    if k == "Pointer": return cs.Pointer(E(n["off"]), R(n["sub"]))
    if k == "Peek": return cs.Peek(R(n["sub"]))
    if k == "OffsettedEnd": return cs.OffsettedEnd(E(n["end"]), R(n["sub"]))
    if k == "Seek": return cs.Seek(E(n["at"]), E(n["whence"]))
    if k == "Tell": return cs.Tell
    if k == "Pass": return cs.Pass
    if k == "Terminated": return cs.Terminated
    if k == "RawCopy": return cs.RawCopy(R(n["sub"]))
    if k == "Prefixed": return cs.Prefixed(R(n["lenf"]), R(n["sub"]), includelength=n["incl"])
    if k == "FixedSized": return cs.FixedSized(E(n["len"]), R(n["sub"]))
    if k == "NullTerminated":
        return cs.NullTerminated(R(n["sub"]), term=bytes(n["term"]), include=n["include"], consume=n["consume"], require=n["require"])
    if k == "NullStripped": return cs.NullStripped(R(n["sub"]), pad=bytes(n["pad"]))
    if k == "Transformed":
        return cs.Transformed(R(n["sub"]), _fn(n["dec"]), None if n["damt"] < 0 else n["damt"], _fn(n["enc"]), None if n["eamt"] < 0 else n["eamt"])
    if k == "Restreamed":
        return cs.Restreamed(R(n["sub"]), _fn(n["dec"]), n["dunit"], _fn(n["enc"]), n["eunit"], _SIZEC[n["sizec"]])
    if k == "ProcessXor": return cs.ProcessXor(E(n["key"]), R(n["sub"]))
    if k == "ProcessRotateLeft": return cs.ProcessRotateLeft(E(n["amount"]), E(n["group"]), R(n["sub"]))
    if k == "Checksum":
        h = _hashes()[n["hash"]]
        def recording_hash(data, n=n, h=h):
            # the hash is an uninterpreted function in the specification: its graph on the explored inputs is logged here
            d = h(data)
            kd = V.enc(data)
            if kd not in n["hk"]:
                n["hk"].append(kd); n["hv"].append(V.enc(d))
            return d
        return cs.Checksum(R(n["field"]), recording_hash, E(n["over"]))
    if k == "Hex": return cs.Hex(R(n["sub"]))
    if k == "HexDump": return cs.HexDump(R(n["sub"]))
    if k == "Alias": return getattr(cs, n["name"])
    if k == "PaddedString": return cs.PaddedString(E(n["len"]), n["enc"])
    if k == "PascalString": return cs.PascalString(R(n["lenf"]), n["enc"])
    if k == "CString": return cs.CString(n["enc"])
    if k == "GreedyString": return cs.GreedyString(n["enc"])
    if k == "Optional": return cs.Optional(R(n["sub"]))
    if k == "If": return cs.If(E(n["cond"]), R(n["sub"]))
    if k == "Padding": return cs.Padding(E(n["len"]), pattern=bytes([n["pat"]]))
    if k == "PrefixedArray": return cs.PrefixedArray(R(n["cf"]), R(n["sub"]))
    if k == "BitStruct": return cs.BitStruct(*[R(s) for s in n["subs"]])
    if k == "AlignedStruct": return cs.AlignedStruct(E(n["mod"]), *[R(s) for s in n["subs"]])
    if k == "Bitwise": return cs.Bitwise(R(n["sub"]))
    if k == "Bytewise": return cs.Bytewise(R(n["sub"]))
    if k == "ByteSwapped": return cs.ByteSwapped(R(n["sub"]))
    if k == "BitsSwapped": return cs.BitsSwapped(R(n["sub"]))
    if k == "OneOf": return cs.OneOf(R(n["sub"]), [V.dec(v) for v in n["vals"]])
    if k == "NoneOf": return cs.NoneOf(R(n["sub"]), [V.dec(v) for v in n["vals"]])
    if k == "Lazy": return cs.Lazy(R(n["sub"]))
    if k == "LazyStruct": return cs.LazyStruct(*[R(s) for s in n["subs"]])
    if k == "LazyArray": return cs.LazyArray(E(n["count"]), R(n["sub"]))
    if k == "Compressed": return cs.Compressed(R(n["sub"]), n["codec"])
    if k == "ExprValidator": return cs.ExprValidator(R(n["sub"]), E(n["f"]))
    if k == "Rec":
        holder = {}
        _REC.setdefault(n["name"], []).append(holder)
        try:
            holder["c"] = R(n["sub"])
        finally:
            _REC[n["name"]].pop()
        return holder["c"]
    if k == "LazyBound":
        holder = _REC[n["ref"]][-1]
        return cs.LazyBound(lambda holder=holder: holder["c"])
    if k == "Indexing": return cs.Indexing(R(n["sub"]), V.dec(n["count"]), V.dec(n["index"]), empty=V.dec(n["empty"]))
    if k == "Slicing": return cs.Slicing(R(n["sub"]), V.dec(n["count"]), V.dec(n["start"]), V.dec(n["stop"]), n["step"], empty=V.dec(n["empty"]))
    if k == "Opaque": return n["_obj"]()          # harness-only node: a construct built directly (law right-hand sides)
    raise ValueError("cannot realize %s" % k)

def _hashable(v):
    if isinstance(v, list):
        return tuple(v)
    return v

def walk(n):
    "all nodes of an AST, preorder"
    yield n
    for key in ("sub", "lenf", "then", "else", "default", "field", "cf"):
        if key in n and isinstance(n[key], dict):
            yield from walk(n[key])
    for key in ("subs", "cv"):
        if key in n:
            for s in n[key]:
                yield from walk(s)

def size(n):
    return sum(1 for _ in walk(n))
