"""pytest plugin (`-p cvh.pytest_plugin`, CONSTRUCT_VERIF_TRACE=1): the repository's own tests as a source of behaviours.

Every top-level _parse / _build / _sizeof call the tests make is recorded with its construct-boundary events (same sink, same stack
discipline as the harness's own recordings) and written as shards to $CVH_REPOTRACE_OUT.  The programs are whatever the tests build
(lambdas, adapters, third-party classes), so these behaviours are not validated against Sem; they are replayed through the pushdown
machine (spec/CAM.tla), whose clauses need no semantics of the members.  This is how a change that the existing tests exercise but
do not assert on (a position not restored, an error path shortened) is seen.
"""
import io, os
from . import tracer, values as V, pipeline

class AutoRecorder(tracer.Recorder):
    "starts a recording at every top-level boundary call and emits it when that call returns"
    def __init__(self, shards, max_events=600, max_cases=60000):
        super().__init__(max_events=max_events)
        self.shards = shards
        self.dropped = 0
        self.max_cases = max_cases

    def sink(self, phase, obj, op, args, ret, exc):
        st = self._st()
        # true nesting depth of boundary calls in this thread: a recording starts only at a top-level call
        if phase == "enter":
            st["depth"] = st.get("depth", 0) + 1
        else:
            st["depth"] = max(st.get("depth", 1) - 1, 0)
        if not st["on"]:
            if phase != "enter" or st["depth"] != 1 or self.shards.n >= self.max_cases:
                return
            self.start(obj)
            stream = args[0] if op == "parse" else args[1] if op == "build" else None
            st["root_stream"] = stream
            st["root_op"] = op
            try:
                st["data"] = bytes(stream.getvalue()) if op == "parse" and isinstance(stream, io.BytesIO) else b""
                st["start"] = tracer.pos_of(stream) if op == "parse" else 0
            except Exception:
                st["data"] = b""; st["start"] = 0
        try:
            super().sink(phase, obj, op, args, ret, exc)
        except tracer.Watchdog:
            # too long for a replay: dropped, the test itself goes on
            self.dropped += 1
            return
        except Exception:
            st["on"] = False
            self.dropped += 1
            return
        if st["on"] and phase == "leave" and not st["stack"] and not st["skip"]:
            events = self.stop()
            last = events[-1]
            if st["start"] < 0 or any(e["p"] < 0 for e in events):
                self.dropped += 1
                return
            call = {"op": st["root_op"], "events": events,
                    "res": {"ok": last["ok"], "v": last["v"] if st["root_op"] != "build" else V.VBytes(b""), "err": last["err"],
                            "p": last["p"], "path": last["path"]}}
            self.shards.add({"k": "Opaque", "desc": "repository test"}, call, {}, st["data"] if len(st["data"]) <= 4096 else b"", max(st["start"], 0),
                            None, None, None, keep=False)
            self.shards.maybe_flush()

_state = {}

def pytest_configure(config):
    out = os.environ.get("CVH_REPOTRACE_OUT")
    if not out:
        return
    sh = pipeline.Shards(out, "repo", shard_size=1500)
    rec = AutoRecorder(sh)
    rec.__enter__()
    _state["rec"] = rec; _state["sh"] = sh

def pytest_unconfigure(config):
    rec = _state.get("rec")
    if rec is None:
        return
    rec.__exit__(None, None, None)
    _state["sh"].flush()
    with open(os.path.join(_state["sh"].scratch, "summary.json"), "w") as f:
        import json
        json.dump({"cases": _state["sh"].n, "dropped": rec.dropped, "shards": _state["sh"].paths}, f)
