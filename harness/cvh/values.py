"""Tagged JSON encoding of Python values (DESIGN.md appendix B; mirrors spec/Values.tla)."""
import struct

def _mag(n):
    n = abs(n)
    return list(n.to_bytes((n.bit_length() + 7) // 8, "big")) if n else []

def enc_int(n):
    n = int(n)
    return {"t": "int", "neg": n < 0, "mag": _mag(n)}

class _Budget:
    left = 0

PLUMBING = {"_io", "_flagsenum", "_", "_root", "_params", "_index", "_parsing", "_building", "_sizing", "_subcons"}
def enc(v, depth=0):
    """Python value -> tagged JSON. The plumbing keys of contexts and parse results (_io, _flagsenum, _, _root, _params ...) are
    dropped from dict-likes; other names starting with '_' are members like any other (Container.__eq__ ignores them, and so does PyEq).
    A value with more than 4000 nodes or a byte/str payload above 4096 is reported as opaque ("huge")."""
    from construct import EnumIntegerString
    if depth == 0:
        _Budget.left = 4000
    _Budget.left -= 1
    if depth > 40 or _Budget.left < 0:
        return {"t": "opaque", "r": "huge"}
    if isinstance(v, (bytes, bytearray, memoryview, str)) and len(v) > 4096:
        return {"t": "opaque", "r": "huge"}
    if isinstance(v, (list, tuple, dict)) and len(v) > 4000:
        return {"t": "opaque", "r": "huge"}
    if v is None:
        return {"t": "none"}
    if isinstance(v, bool):
        return {"t": "bool", "b": v}
    if isinstance(v, int):
        return enc_int(v)
    if isinstance(v, float):
        return {"t": "float", "f": list(struct.pack(">d", v))}
    if isinstance(v, (bytes, bytearray, memoryview)):
        return {"t": "bytes", "b": list(bytes(v))}
    if isinstance(v, EnumIntegerString):
        return {"t": "enumstr", "s": [ord(c) for c in v], "i": enc_int(v.intvalue)}
    if isinstance(v, str):
        return {"t": "str", "s": [ord(c) for c in v]}
    if isinstance(v, dict):
        ks, vs = [], []
        try:
            items = list(dict.items(v))
        except Exception:
            return {"t": "opaque", "r": type(v).__name__}
        for k, x in items:
            if not isinstance(k, str):
                return {"t": "opaque", "r": "dict-with-nonstring-key"}
            if k in PLUMBING:
                continue
            ks.append(k)
            vs.append(enc(x, depth + 1))
        return {"t": "dict", "k": ks, "v": vs}
    if isinstance(v, (list, tuple)):
        return {"t": "list", "xs": [enc(x, depth + 1) for x in list.__iter__(v)] if isinstance(v, list) else [enc(x, depth + 1) for x in v]}
    return {"t": "opaque", "r": type(v).__name__}

def dec(j):
    """tagged JSON -> Python value (Containers for dicts, as users would pass)."""
    from construct import Container, ListContainer, EnumIntegerString
    t = j["t"]
    if t == "none":
        return None
    if t == "bool":
        return j["b"]
    if t == "int":
        n = int.from_bytes(bytes(j["mag"]), "big")
        return -n if j["neg"] else n
    if t == "float":
        return struct.unpack(">d", bytes(j["f"]))[0]
    if t == "bytes":
        return bytes(j["b"])
    if t == "str":
        return "".join(chr(c) for c in j["s"])
    if t == "enumstr":
        return EnumIntegerString.new(dec(j["i"]), "".join(chr(c) for c in j["s"]))
    if t == "list":
        return ListContainer(dec(x) for x in j["xs"])
    if t == "dict":
        return Container((k, dec(x)) for k, x in zip(j["k"], j["v"]))
    raise ValueError("cannot decode %r" % (j,))

# convenience constructors used by generators
def VNone(): return {"t": "none"}
def VBool(b): return {"t": "bool", "b": bool(b)}
def VInt(n): return enc_int(n)
def VBytes(b): return {"t": "bytes", "b": list(b)}
def VStr(s): return {"t": "str", "s": [ord(c) for c in s]}
def VFloat(x): return {"t": "float", "f": list(struct.pack(">d", x))}
def VList(xs): return {"t": "list", "xs": list(xs)}
def VDict(pairs): 
    pairs = list(pairs)
    return {"t": "dict", "k": [k for k, _ in pairs], "v": [v for _, v in pairs]}
