"""/verif/check driver: `check <Cxx> [--tier quick|thorough] [--replay PATH]` (DESIGN.md section 6).

exit 0: property held on everything explored (known findings are printed as KNOWN-FINDING lines)
exit 1: at least one violation not listed in known_findings.json; prints `VIOLATION property=<id> replay=<path>`
exit 2: machinery failure (TLC crash, unparsable output, missing verdicts, vacuity guard)
"""
import argparse, hashlib, importlib, json, os, random, shutil, sys, time, traceback

VERIF = os.path.dirname(os.path.dirname(os.path.dirname(os.path.abspath(__file__))))
REPO = os.environ.get("CVH_REPO", "/repo")

class Ctx:
    def __init__(self, prop, tier, seed, replay=None):
        self.prop = prop
        self.tier = tier
        self.seed = seed
        self.replay = replay
        self.rng = random.Random((seed * 1000003) ^ int(hashlib.sha1(prop.encode()).hexdigest()[:8], 16))
        self.scratch = os.path.join(VERIF, "run", "%s-%s-%d" % (prop, tier, os.getpid()))
        self.violations = []          # unlisted violations
        self.known_hits = {}          # index of known finding -> count
        self.fixed_hits = []
        self.cov = {"evaluations": 0, "distinct_nontrivial": 0, "states": 0, "transitions": 0,
                    "traces_validated_against_impl": 0, "samples": [], "skipped_out_of_model": 0}
        self.assumptions = []
        self.t0 = time.time()
        with open(os.path.join(VERIF, "known_findings.json")) as f:
            self.findings = [k for k in json.load(f)["findings"] if k["property"] == prop]
        os.makedirs(self.scratch, exist_ok=True)
        if not replay:
            shutil.rmtree(os.path.join(VERIF, "replays", prop), ignore_errors=True)    # replays of this run only
        self.jvms = 8
        self.workers = 2

    def quick(self):
        return self.tier == "quick"

    # ---- violations and known findings
    def report(self, clause, sig, payload):
        """sig: dict of short strings identifying the failure (clause, node class, op, what);
        payload: self-contained replay document"""
        sig = dict(sig, clause=clause)
        for i, k in enumerate(self.findings):
            def hit(f, v):
                if f.startswith("has_"):                       # has_kind: "StopIf"  ->  "StopIf" in sig["kinds"]
                    return v in (sig.get(f[4:] + "s") or [])
                return str(sig.get(f)) == str(v)
            if all(hit(f, v) for f, v in k["match"].items()):
                if k["status"] == "known":
                    self.known_hits[i] = self.known_hits.get(i, 0) + 1
                    return "known"
        h = hashlib.sha1(json.dumps(payload, sort_keys=True, default=str).encode()).hexdigest()[:16]
        d = os.path.join(VERIF, "replays", self.prop)
        os.makedirs(d, exist_ok=True)
        path = os.path.join(d, h + ".json")
        if len(self.violations) < 25:
            with open(path, "w") as f:
                json.dump({"property": self.prop, "signature": sig, "payload": payload}, f, default=str)
        self.violations.append({"sig": sig, "replay": path})
        return "violation"

    def add_tlc(self, stats):
        self.cov["states"] += stats.get("distinct", 0)
        self.cov["transitions"] += stats.get("generated", 0)

    def sample(self, x):
        if len(self.cov["samples"]) < 6:
            self.cov["samples"].append(x)

def write_evidence(ctx, level="model_checking", extra=None):
    cov = dict(ctx.cov)
    cov["rule"] = getattr(ctx, "rule", "")
    if extra:
        cov.update(extra)
    if not cov["samples"]:
        cov["samples"] = ["(none)"]
    ev = {"property_id": ctx.prop, "tier": ctx.tier, "seed": ctx.seed, "level": level, "coverage": cov,
          "assumptions": ctx.assumptions, "wall_s": round(time.time() - ctx.t0, 2),
          "violations": len(ctx.violations)}
    os.makedirs(os.path.join(VERIF, "evidence"), exist_ok=True)
    with open(os.path.join(VERIF, "evidence", ctx.prop + ".json"), "w") as f:
        json.dump(ev, f, indent=1, default=str)

def main(argv=None):
    ap = argparse.ArgumentParser()
    ap.add_argument("prop")
    ap.add_argument("--tier", default=None)
    ap.add_argument("--replay", default=None)
    a = ap.parse_args(argv)
    tier = a.tier or os.environ.get("VERIF_TIER") or "quick"
    if tier not in ("quick", "thorough"):
        tier = "quick"
    try:
        seed = int(os.environ.get("VERIF_SEED", "0"))
    except ValueError:
        seed = 0
    os.environ["CONSTRUCT_VERIF_TRACE"] = "1"
    os.environ.setdefault("PYTHONHASHSEED", "0")
    sys.path.insert(0, REPO)
    sys.setrecursionlimit(10000)
    if os.environ.get("CVH_DUMP_AFTER"):
        import faulthandler
        faulthandler.dump_traceback_later(int(os.environ["CVH_DUMP_AFTER"]), exit=True)
    try:
        import resource
        resource.setrlimit(resource.RLIMIT_AS, (8 << 30, resource.getrlimit(resource.RLIMIT_AS)[1]))   # soft limit: a runaway allocation fails instead of swapping
    except Exception:
        pass
    import construct
    if not os.path.abspath(construct.__file__).startswith(REPO + "/construct"):
        print("MACHINERY: construct imported from %s, not from %s" % (construct.__file__, REPO))
        return 2
    ctx = Ctx(a.prop, tier, seed, a.replay)
    from . import tlc
    try:
        mod = importlib.import_module("cvh.props." + a.prop)
        if a.replay:
            from . import campaign
            r = mod.replay(ctx, a.replay) if hasattr(mod, "replay") else campaign.replay(ctx, a.replay)
            if r is None:
                print("replay: this kind of case is re-created by the property's own generator; running the quick check instead")
                mod.run(ctx)
            else:
                print("replay: the recorded violation %s" % ("REPRODUCES" if r else "does not reproduce on this tree"))
                if r:
                    ctx.violations.append({"sig": {"clause": "replay"}, "replay": a.replay})
        else:
            mod.run(ctx)
        from . import campaign as _camp
        r = _camp.REALIZED
        ctx.cov["programs_realized"] = r["ok"]
        ctx.cov["programs_the_library_refused"] = r["failed"]
        if r["failed"] and r["failed"] > 0.3 * (r["ok"] + r["failed"]) and not a.replay:
            raise tlc.MachineryError("vacuity guard: %d of %d programs could not be constructed, e.g. %s" % (r["failed"], r["ok"] + r["failed"], r["examples"]))
        if not a.replay and not os.environ.get("CVH_NO_EVIDENCE"):     # mutation testing against a scratch tree leaves the evidence of /repo alone
            write_evidence(ctx, getattr(mod, "LEVEL", "model_checking"), getattr(ctx, "extra", None))
    except tlc.MachineryError as e:
        print("MACHINERY: %s" % (e,))
        return 2
    except Exception:
        traceback.print_exc()
        print("MACHINERY: harness exception")
        return 2
    finally:
        shutil.rmtree(ctx.scratch, ignore_errors=True)
        try:
            os.rmdir(os.path.join(VERIF, "run"))
        except OSError:
            pass
    for i, n in sorted(ctx.known_hits.items()):
        k = ctx.findings[i]
        print("KNOWN-FINDING: property=%s %s (reproduced %d times)" % (ctx.prop, k["description"], n))
    if ctx.violations:
        seen = set()
        for v in ctx.violations[:25]:
            if v["replay"] in seen:
                continue
            seen.add(v["replay"])
            print("VIOLATION property=%s replay=%s  %s" % (ctx.prop, v["replay"], json.dumps(v["sig"], sort_keys=True)))
        hist = {}
        for v in ctx.violations:
            key = "%s @ %s" % (v["sig"].get("clause"), v["sig"].get("member_kind") or v["sig"].get("node") or v["sig"].get("top") or v["sig"].get("op") or "-")
            hist[key] = hist.get(key, 0) + 1
        print("SUMMARY " + "; ".join("%s x%d" % kv for kv in sorted(hist.items(), key=lambda kv: -kv[1])[:40]))
        print("%s: %d violation(s) in %d evaluations" % (ctx.prop, len(ctx.violations), ctx.cov["evaluations"]))
        return 1
    print("%s %s: held on %d evaluations (%d non-trivial), %d TLC states, %.1fs" %
          (ctx.prop, tier, ctx.cov["evaluations"], ctx.cov["distinct_nontrivial"], ctx.cov["states"], time.time() - ctx.t0))
    return 0

if __name__ == "__main__":
    sys.exit(main())
