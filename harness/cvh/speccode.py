"""spec -> code: sessions explored by TLC on the model-driven abstract machine (spec/MC_CAM.tla) are stepped through the real library.

TLC enumerates, within the bounds of spec/Universe.tla, every session  parse(d); build(value parsed); parse(bytes built)  on every
program of the universe (or the part of it a property is about), replays each call one construct-boundary event per state
through the pushdown machine, checks the machine-level clauses and the session theorems on the specification itself, and prints
each session with the results Sem prescribes.  `drive` then performs the same calls on the real objects -- with the values and
bytes *the specification* produced, not the ones the code returned -- and records them for validation against Sem (Trace.tla,
CAM.tla) like every other recording.
"""
import os
from . import ast as A, values as V, tlc, campaign

def explore(ctx, focus="all", part=None, tier=None, emit=True, control=False, survey=False, faults=False, workers=16, timeout=7200):
    env = {"MC_TIER": tier or ctx.tier, "MC_FOCUS": focus, "MC_EMIT": "1" if emit else "0",
           "MC_CONTROL": "1" if control else "0", "MC_SURVEY": "1" if survey else "0", "MC_FAULTS": "1" if faults else "0"}
    if part:
        env["MC_PART"] = part
    out, stats = tlc.run_tlc("MC_CAM.tla", "MC_CAM.cfg", workers=workers, env=env, scratch=ctx.scratch, timeout=timeout)
    failed = "Error:" in out
    if control:
        return failed, stats
    if failed:
        i = out.index("Error:")
        raise tlc.MachineryError("MC_CAM (focus %s, part %s): the specification violates its own design-level theorems:\n%s" % (focus, part, out[i:i + 3000]))
    progs, kw, sessions = None, None, []
    if emit:
        for x in tlc.parse_printed_json(out):
            if x.get("id") == "universe":
                progs, kw = x["progs"], V.dec(x["kw"])
            elif x.get("id") == "s":
                sessions.append(x)
        if progs is None:
            raise tlc.MachineryError("MC_CAM printed no universe")
    ctx.add_tlc(stats)
    d = ctx.cov.setdefault("design_level", {}).setdefault("MC_CAM", {"runs": 0, "states": 0, "sessions": 0, "wall_s": 0.0})
    d["runs"] += 1; d["states"] += stats["distinct"]; d["sessions"] += len(sessions); d["wall_s"] = round(d["wall_s"] + stats["wall_s"], 1)
    d.setdefault("focus", []).append("%s:%s" % (focus, part or "all"))
    return progs, kw, sessions, stats

def negative_control(ctx, focus="StopIf"):
    "with the known hole of the sizing wrappers left open, TLC must find the Z-exact violation"
    failed, stats = explore(ctx, focus=focus, control=True, emit=False, tier="quick")
    if not failed:
        raise tlc.MachineryError("MC_CAM negative control: TLC did not find the planted violation")
    ctx.cov.setdefault("design_level", {})["MC_CAM_control"] = {"states": stats["distinct"], "refuted": True}

def drive(camp, progs, kw, sessions, on_session=None, limit=None):
    """step the sessions through the real library. on_session(camp, prog, con, s, idx) receives the shard indices of the recorded
    calls: idx = {"parse": i, "build": i or None, "reparse": i or None} and the recorded calls under "calls" """
    cons = {}
    n = direct = 0
    sessions = sorted(sessions, key=lambda s: (s["pi"], s["data"]))
    if limit and len(sessions) > limit:
        step = len(sessions) / float(limit)
        sessions = [sessions[int(i * step)] for i in range(limit)]
    for s in sessions:
        prog = progs[s["pi"] - 1]
        if s["pi"] not in cons:
            cons[s["pi"]] = campaign.realizable(prog)
        con = cons[s["pi"]]
        if con is None:
            camp.unrealizable += 1
            continue
        calls = s["calls"]
        if calls[0].get("oom"):
            continue
        data = bytes(calls[0]["data"])
        idx = {"parse": None, "build": None, "reparse": None, "calls": {}}
        idx["parse"], c = camp.parse(prog, con, data, calls[0].get("start", 0), kw, tag="mc")
        idx["calls"]["parse"] = c
        direct += _differs(calls[0], c)
        if len(calls) > 1 and calls[0]["ok"] and not calls[1].get("oom"):
            try:
                obj = V.dec(calls[1]["arg"])
            except Exception:
                obj = None
            else:
                idx["build"], c = camp.build(prog, con, obj, bytes(calls[1]["data"]), kw, tag="mc", arg=calls[1]["arg"])
                idx["calls"]["build"] = c
                direct += _differs(calls[1], c)
                if len(calls) > 2 and calls[1]["ok"] and not calls[2].get("oom"):
                    idx["reparse"], c = camp.parse(prog, con, bytes(calls[2]["data"]), calls[2].get("start", 0), kw, tag="mc")
                    idx["calls"]["reparse"] = c
                    direct += _differs(calls[2], c)
        if on_session:
            on_session(camp, prog, con, s, idx)
        n += 1
        camp.sh.maybe_flush()
    d = camp.ctx.cov.setdefault("spec_to_code", {"sessions_driven": 0, "calls_differing_from_emitted_prediction": 0})
    d["sessions_driven"] += n
    d["calls_differing_from_emitted_prediction"] += direct
    return n

def _differs(pred, call):
    "status / position / bytes of a recorded call against what TLC printed for it (informative; the verdicts come from Trace.tla)"
    r = call["res"]
    if bool(pred["ok"]) != bool(r["ok"]):
        return 1
    if not r["ok"]:
        return 0
    if pred["op"] == "build":
        return int(pred["v"].get("b") != r["v"].get("b"))
    return int(pred["p"] != r.get("p"))

def part_of(ctx, n):
    return "%d/%d" % (ctx.seed % n, n)
