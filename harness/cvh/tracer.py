"""Recording construct-boundary behaviours of the real library.

The repository hook (construct/lib/veriftrace.py, guard CONSTRUCT_VERIF_TRACE=1) calls our sink at the
entry and exit of every _parse/_build/_sizeof.  Events are attributed by stack discipline: an event is
recorded only if its construct is the root of the traced call or a member (found generically among the
attributes) of the construct on top of the stack; anything else (ZigZag borrowing the VarInt singleton,
helpers) is an implementation detail below the boundary and is skipped together with everything nested in it.
"""
import io, os, threading
from . import values as V

def _require_hook():
    if os.environ.get("CONSTRUCT_VERIF_TRACE") != "1":
        raise RuntimeError("CONSTRUCT_VERIF_TRACE=1 must be set before construct is imported")
    import construct
    from construct.lib import veriftrace
    if not getattr(construct.Construct.__dict__.get("_parse"), "_verif_wrapped", False):
        raise RuntimeError("tracing hook is not installed on construct.Construct")
    return veriftrace

_children_cache = {}
def members(obj):
    "constructs held directly by obj (generic: any attribute, list/tuple/dict of attributes)"
    import construct as cs
    key = id(obj)
    hit = _children_cache.get(key)
    if hit is not None and hit[0] is obj:
        return hit[1]
    out = []
    d = getattr(obj, "__dict__", {})
    for name, val in d.items():
        if name == "_subcons":
            continue
        if isinstance(val, cs.Construct):
            out.append(val)
        elif isinstance(val, (list, tuple)):
            out.extend(x for x in val if isinstance(x, cs.Construct))
        elif isinstance(val, dict):
            out.extend(x for x in dict.values(val) if isinstance(x, cs.Construct))
    ids = set(id(x) for x in out)
    _children_cache[key] = (obj, ids)
    return ids

def _name_of(obj):
    "the member name a Renamed node contributes to error paths"
    if type(obj).__name__ == "Renamed":
        n = obj.__dict__.get("name")
        return n if isinstance(n, str) else str(n)        # Renamed appends "%s" % name to the path whatever it is
    return ""

def path_list(exc):
    """ConstructError.path as a list: ["(parsing)", "a", "b"]; ["<none>"] when a ConstructError carries no path;
    [] for exceptions that are not ConstructErrors"""
    import construct
    if not isinstance(exc, construct.ConstructError):
        return []
    p = getattr(exc, "path", None)
    if p is None:
        return ["<none>"]
    return [x for x in str(p).split(" -> ")]

def pos_of(stream):
    if stream is None:
        return 0
    f = getattr(stream, "_verif_pos", None)
    try:
        return f() if f is not None else stream.tell()
    except Exception:
        return -1

class Watchdog(BaseException):
    "raised from the sink when one call produces more events than any terminating call in scope could"

class Recorder:
    """per-thread event recorder; install with `with Recorder() as rec:`"""
    def __init__(self, gate=None, values=True, max_events=4000):
        self.max_events = max_events
        self.tl = threading.local()
        self.gate = gate
        self.values = values

    def _st(self):
        st = getattr(self.tl, "st", None)
        if st is None:
            st = self.tl.st = {"stack": [], "skip": 0, "events": [], "on": False}
        return st

    def start(self, root):
        st = self._st()
        st["stack"] = []; st["skip"] = 0; st["events"] = []; st["on"] = True; st["root"] = root; st["count"] = 0

    def stop(self):
        st = self._st()
        st["on"] = False
        return st["events"]

    def sink(self, phase, obj, op, args, ret, exc):
        st = self._st()
        if not st["on"]:
            return
        st["count"] += 1
        if st["count"] > self.max_events:
            st["on"] = False
            raise Watchdog()
        if phase == "enter":
            if st["skip"]:
                st["skip"] += 1
                return
            stack = st["stack"]
            if stack:
                # (a LazyBound holds no member: the construct it stands for is whatever its function returns when it is reached)
                if id(obj) not in members(stack[-1]) and type(stack[-1]).__name__ != "LazyBound":
                    st["skip"] = 1
                    return
            elif obj is not st["root"]:
                st["skip"] = 1
                return
            stack.append(obj)
            stream = args[0] if op == "parse" else args[1] if op == "build" else None
            ev = {"e": "in", "k": type(obj).__name__, "op": op, "p": pos_of(stream), "ok": True,
                  "v": V.enc(args[0]) if op == "build" and self.values else {"t": "none"}, "err": "",
                  "nm": _name_of(obj), "path": []}
            st["events"].append(ev)
            if self.gate is not None:
                self.gate(ev)
        else:
            if st["skip"]:
                st["skip"] -= 1
                return
            stack = st["stack"]
            stack.pop()
            stream = args[0] if op == "parse" else args[1] if op == "build" else None
            if exc is None:
                ev = {"e": "out", "k": type(obj).__name__, "op": op, "p": pos_of(stream), "ok": True,
                      "v": V.enc(ret) if self.values else {"t": "none"}, "err": "", "nm": _name_of(obj), "path": []}
            else:
                ev = {"e": "out", "k": type(obj).__name__, "op": op, "p": pos_of(stream), "ok": False,
                      "v": {"t": "none"}, "err": type(exc).__name__, "nm": _name_of(obj), "path": path_list(exc)}
            st["events"].append(ev)
            if self.gate is not None:
                self.gate(ev)

    def __enter__(self):
        self.vt = _require_hook()
        self.prev = self.vt.sink
        self.vt.sink = self.sink
        return self

    def __exit__(self, *a):
        self.vt.sink = self.prev

class FaultyIO(io.RawIOBase):
    """root stream whose k-th operation fails (spec/Streams.tla: Faulty). Operations counted: read, write, seek, tell."""
    def __init__(self, data=b"", pos=0, k=0, mode="none"):
        self.buf = io.BytesIO(data)
        self.buf.seek(pos)
        self.k = k; self.mode = mode; self.ops = 0
    def _verif_pos(self):
        return self.buf.tell()
    def _tick(self):
        self.ops += 1
        return self.ops == self.k
    def read(self, n=-1):
        hit = self._tick()
        if hit and self.mode == "raise":
            raise OSError("injected read fault")
        if n is None or n < 0:
            d = self.buf.read()
            if hit and self.mode == "short" and d:
                self.buf.seek(-1, 1); d = d[:-1]
            return d
        if hit and self.mode == "short":
            avail = len(self.buf.getbuffer()) - self.buf.tell()
            m = min(n, max(avail, 0))
            return self.buf.read(m - 1 if m > 0 else 0)
        return self.buf.read(n)
    def write(self, d):
        hit = self._tick()
        if hit and self.mode == "raise":
            raise OSError("injected write fault")
        if hit and self.mode == "short" and len(d) > 0:
            return self.buf.write(d[:-1])
        return self.buf.write(d)
    def seek(self, off, whence=0):
        hit = self._tick()
        if (hit and self.mode == "raise") or self.mode == "noseek":
            raise OSError("injected seek fault")
        return self.buf.seek(off, whence)
    def tell(self):
        hit = self._tick()
        if (hit and self.mode == "raise") or self.mode == "notell":
            raise OSError("injected tell fault")
        return self.buf.tell()
    def seekable(self): return self.mode != "noseek"
    def readable(self): return True
    def writable(self): return True
    def getvalue(self): return self.buf.getvalue()

LAST_PATH = [[]]
def _alarm(signum, frame):
    raise Watchdog()

def _outcome(fn, seconds=10):
    """run one recorded call; a call that neither returns nor produces events within `seconds` of CPU time (generated code looping
    over a huge count) is cut by an interval timer (main thread only).  The timer counts the process's own CPU time, so a loaded
    machine does not cut a healthy call."""
    try:
        return _outcome1(fn, seconds)
    except Watchdog:            # the timer fired while the call was being wound up
        return False, None, "Watchdog"

def _outcome1(fn, seconds):
    import signal
    LAST_PATH[0] = []
    timer = threading.current_thread() is threading.main_thread()
    if timer:
        old = signal.signal(signal.SIGVTALRM, _alarm)
        signal.setitimer(signal.ITIMER_VIRTUAL, seconds)
    try:
        return True, fn(), ""
    except BaseException as e:
        if timer:
            signal.setitimer(signal.ITIMER_VIRTUAL, 0)
        LAST_PATH[0] = path_list(e) if not isinstance(e, Watchdog) else []
        if isinstance(e, (KeyboardInterrupt, SystemExit)):
            raise
        if isinstance(e, MemoryError):
            return False, None, "Watchdog"
        if isinstance(e, Watchdog):
            return False, None, "Watchdog"
        return False, None, type(e).__name__
    finally:
        if timer:
            signal.setitimer(signal.ITIMER_VIRTUAL, 0)
            signal.signal(signal.SIGVTALRM, old)

def run_parse(rec, con, data, start=0, kw=None, fault=None):
    "parse_stream on a root stream positioned at start; returns the recorded call"
    kw = kw or {}
    stream = FaultyIO(data, start, fault["k"], fault["mode"]) if fault else io.BytesIO(data)
    if not fault:
        stream.seek(start)
    rec.start(con)
    ok, val, err = _outcome(lambda: con.parse_stream(stream, **kw))
    events = rec.stop()
    if err == "Watchdog":
        events = events[:40]
    return {"op": "parse", "events": events, "ops": getattr(stream, "ops", 0),
            "res": {"ok": ok, "v": V.enc(val) if ok else {"t": "none"}, "err": err, "p": pos_of(stream), "path": LAST_PATH[0]}}

def run_build(rec, con, obj, pre=b"", kw=None, fault=None):
    "build_stream into a root stream that already holds `pre`; returns the recorded call"
    kw = kw or {}
    if fault:
        stream = FaultyIO(pre, len(pre), fault["k"], fault["mode"])
    else:
        stream = io.BytesIO(pre); stream.seek(len(pre))
    rec.start(con)
    ok, val, err = _outcome(lambda: con.build_stream(obj, stream, **kw))
    events = rec.stop()
    if err == "Watchdog":
        events = events[:40]
    out = stream.getvalue()
    return {"op": "build", "events": events, "ops": getattr(stream, "ops", 0),
            "res": {"ok": ok, "v": V.VBytes(out[len(pre):]) if ok else {"t": "none"}, "err": err, "p": pos_of(stream), "path": LAST_PATH[0]}}

def run_sizeof(rec, con, kw=None):
    kw = kw or {}
    rec.start(con)
    ok, val, err = _outcome(lambda: con.sizeof(**kw))
    events = rec.stop()
    return {"op": "sizeof", "events": events,
            "res": {"ok": ok, "v": V.enc(val) if ok else {"t": "none"}, "err": err, "p": 0, "path": LAST_PATH[0]}}
