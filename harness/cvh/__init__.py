"""cvh: harness binding the TLA+ Construct Abstract Machine (/verif/spec) to construct/construct."""
