"""The repository's own tests as a source of behaviours (DESIGN.md 3.3 source d): run under the recording plugin, replayed through
the pushdown machine (spec/CAM.tla) for the machine-level clauses of the calling property."""
import json, os, subprocess, sys
from . import pipeline, tlc
from .check import REPO

def run(ctx, prefixes, files=("tests/test_core.py", "tests/gallery/test_gallery.py", "tests/deprecated_gallery", "tests/test_compiler.py"), timeout=1800):
    out = os.path.join(ctx.scratch, "repotests")
    os.makedirs(out, exist_ok=True)
    env = dict(os.environ, CVH_REPOTRACE_OUT=out, CONSTRUCT_VERIF_TRACE="1",
               PYTHONPATH=REPO + os.pathsep + os.path.dirname(os.path.dirname(os.path.abspath(__file__))))
    p = subprocess.run([sys.executable, "-m", "pytest", *files, "-q", "-p", "no:cacheprovider", "-p", "cvh.pytest_plugin", "--timeout=900"],
                       cwd=REPO, env=env, stdout=subprocess.PIPE, stderr=subprocess.STDOUT, text=True, timeout=timeout)
    sp = os.path.join(out, "summary.json")
    if not os.path.exists(sp):
        raise tlc.MachineryError("repository tests produced no recording:\n" + p.stdout[-1500:])
    with open(sp) as f:
        summary = json.load(f)
    vs, stats = pipeline.validate(summary["shards"], jvms=ctx.jvms, workers=ctx.workers, scratch=ctx.scratch, module="CAM")
    ctx.add_tlc(stats)
    n = 0
    for v in vs:
        if v["st"] == "spec-error":
            raise tlc.MachineryError("TLC evaluation error in CAM replay of repository tests: %s" % v.get("why"))
        for f in v.get("fails", []):
            if any(f["clause"].startswith(x) for x in prefixes):
                case = _find(summary["shards"], v["id"])
                ctx.report(f["clause"], {"node": f["node"], "op": case["op"], "source": "repository tests"},
                           {"kind": "repotest", "call": {k: case[k] for k in ("op", "data", "start")}, "recorded": {"events": case["events"], "res": case["res"]},
                            "verdict": f})
                n += 1
    ctx.cov["evaluations"] += len(vs)
    ctx.cov["traces_validated_against_impl"] += len(vs)
    ctx.cov["repository_tests"] = {"files": list(files), "top_level_calls_replayed": len(vs), "dropped": summary["dropped"],
                                   "pytest_tail": p.stdout.strip().splitlines()[-1][:200] if p.stdout.strip() else ""}
    return n

def _find(paths, cid):
    for path in paths:
        with open(path) as f:
            for c in json.load(f)["cases"]:
                if c["id"] == cid:
                    return c
    return {"op": "?", "data": [], "start": 0, "events": [], "res": {}}
