"""Running TLC on the specification (model checking configurations and trace validation)."""
import json, os, re, subprocess, tempfile, time, shutil

SPEC = os.path.join(os.path.dirname(os.path.dirname(os.path.dirname(os.path.abspath(__file__)))), "spec")
JAR = "/opt/veriftools/tla/tla2tools.jar"
CM = "/opt/veriftools/tla/CommunityModules-deps.jar"

class MachineryError(Exception):
    pass

def tlc_cmd(module, cfg, workers, metadir, extra=(), xss="256m", heap=None):
    cmd = ["java", "-Xss" + xss, "-XX:+UseParallelGC"]
    if heap:
        cmd.append("-Xmx" + heap)
    cmd += ["-cp", JAR + ":" + CM, "tlc2.TLC", "-workers", str(workers), "-metadir", metadir,
            "-noGenerateSpecTE", "-config", cfg, *extra, module]
    return cmd

_STATS = re.compile(r"(\d+) states generated, (\d+) distinct states found")

def run_tlc(module, cfg, workers=4, env=None, timeout=3600, extra=(), scratch=None, heap=None):
    """run TLC in SPEC; returns (stdout, stats). Raises MachineryError on a TLC-level failure."""
    metadir = tempfile.mkdtemp(prefix="tlcmeta_", dir=scratch)
    e = dict(os.environ)
    if env:
        e.update(env)
    t0 = time.time()
    try:
        p = subprocess.run(tlc_cmd(module, cfg, workers, metadir, extra, heap=heap), cwd=SPEC, env=e,
                           stdout=subprocess.PIPE, stderr=subprocess.STDOUT, timeout=timeout, text=True)
    except subprocess.TimeoutExpired:
        raise MachineryError("TLC timed out on %s" % module)
    finally:
        shutil.rmtree(metadir, ignore_errors=True)
    out = p.stdout
    m = _STATS.findall(out)
    stats = {"generated": int(m[-1][0]), "distinct": int(m[-1][1])} if m else {"generated": 0, "distinct": 0}
    stats["wall_s"] = time.time() - t0
    stats["rc"] = p.returncode
    return out, stats

def parse_printed_json(out):
    """lines printed by PrintT(ToJson(x)): a TLA+ string literal holding JSON"""
    res = []
    for line in out.splitlines():
        line = line.strip()
        if line.startswith('"{') and line.endswith('}"'):
            try:
                res.append(json.loads(json.loads(line)))
            except Exception:
                try:
                    res.append(json.loads(line[1:-1].replace('\\"', '"').replace("\\\\", "\\")))
                except Exception:
                    raise MachineryError("unparsable verdict line: %s" % line[:200])
    return res

def validate_shard(path, workers=2, timeout=3600, scratch=None):
    out, stats = run_tlc("Trace.tla", "Trace.cfg", workers=workers, env={"TRACE_FILE": path}, timeout=timeout, scratch=scratch)
    if "Error:" in out and "Finished in" not in out.split("Error:")[-1] or stats["rc"] not in (0,):
        if "Error:" in out:
            raise MachineryError("TLC error during trace validation of %s:\n%s" % (path, out[-3000:]))
    return parse_printed_json(out), stats
