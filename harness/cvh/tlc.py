"""Running TLC on the specification (model checking configurations and trace validation)."""
import json, os, re, subprocess, tempfile, time, shutil

SPEC = os.path.join(os.path.dirname(os.path.dirname(os.path.dirname(os.path.abspath(__file__)))), "spec")
JAR = "/opt/veriftools/tla/tla2tools.jar"
CM = "/opt/veriftools/tla/CommunityModules-deps.jar"

class MachineryError(Exception):
    pass

def tlc_cmd(module, cfg, workers, metadir, extra=(), xss="256m", heap=None):
    cmd = ["java", "-Xss" + xss, "-XX:+UseParallelGC"]
    if heap:
        cmd.append("-Xmx" + heap)
    cmd += ["-cp", JAR + ":" + CM, "tlc2.TLC", "-workers", str(workers), "-metadir", metadir,
            "-noGenerateSpecTE", "-config", cfg, *extra, module]
    return cmd

_STATS = re.compile(r"(\d+) states generated, (\d+) distinct states found")

def _unlimit():
    "the JVM must not inherit the harness's soft address-space limit"
    try:
        import resource
        hard = resource.getrlimit(resource.RLIMIT_AS)[1]
        resource.setrlimit(resource.RLIMIT_AS, (hard, hard))
    except Exception:
        pass

def run_tlc(module, cfg, workers=4, env=None, timeout=3600, extra=(), scratch=None, heap=None):
    """run TLC in SPEC; returns (stdout, stats). Raises MachineryError on a TLC-level failure."""
    metadir = tempfile.mkdtemp(prefix="tlcmeta_", dir=scratch)
    e = dict(os.environ)
    if env:
        e.update(env)
    t0 = time.time()
    try:
        p = subprocess.run(tlc_cmd(module, cfg, workers, metadir, extra, heap=heap), cwd=SPEC, env=e,
                           stdout=subprocess.PIPE, stderr=subprocess.STDOUT, timeout=timeout, text=True, preexec_fn=_unlimit)
    except subprocess.TimeoutExpired:
        raise MachineryError("TLC timed out on %s" % module)
    finally:
        shutil.rmtree(metadir, ignore_errors=True)
    out = p.stdout
    m = _STATS.findall(out)
    stats = {"generated": int(m[-1][0]), "distinct": int(m[-1][1])} if m else {"generated": 0, "distinct": 0}
    stats["wall_s"] = time.time() - t0
    stats["rc"] = p.returncode
    return out, stats

def parse_printed_json(out, strict=True):
    """lines printed by PrintT(ToJson(x)): a TLA+ string literal holding JSON. With strict=False a line that does not parse
    (two workers' output interleaved, very rarely) is dropped: the caller notices the missing verdict and runs the shard again."""
    res = []
    for line in out.splitlines():
        line = line.strip()
        if line.startswith('"{') and line.endswith('}"'):
            try:
                res.append(json.loads(json.loads(line)))
            except Exception:
                try:
                    res.append(json.loads(line[1:-1].replace('\\"', '"').replace("\\\\", "\\")))
                except Exception:
                    if strict:
                        raise MachineryError("unparsable verdict line: %s" % line[:200])
    return res

def validate_shard(path, workers=2, timeout=3600, scratch=None, max_retries=25, module="Trace"):
    """validate one shard. A TLC evaluation error (a typing slip in the spec on some case) aborts the JVM:
    the offending case or session is identified from the error trace, recorded as a 'spec-error' verdict
    (machinery failure, never a VIOLATION) and the shard is re-run for what is still undecided."""
    verdicts = {}
    total = {"generated": 0, "distinct": 0, "wall_s": 0.0, "rc": 0}
    cur = path
    doc = None
    try:
        for attempt in range(max_retries + 1):
            out, stats = run_tlc(module + ".tla", module + ".cfg", workers=workers, env={"TRACE_FILE": cur}, timeout=timeout, scratch=scratch)
            for k in ("generated", "distinct", "wall_s"):
                total[k] += stats[k]
            for v in parse_printed_json(out, strict=False):
                if "id" in v:
                    verdicts[v["id"]] = v
            if "Error:" not in out:
                if out.count('"{') > len(parse_printed_json(out, strict=False)) and workers > 1 and attempt < max_retries:
                    # a printed line was garbled by concurrent workers: run what is still undecided again, single-threaded
                    if doc is None:
                        with open(path) as f:
                            doc = json.load(f)
                    doc["done"] = sorted(verdicts)
                    cur = path + ".retry"
                    with open(cur, "w") as f:
                        json.dump(doc, f, separators=(",", ":"))
                    workers = 1
                    continue
                break
            m = re.search(r"/\\ cid = (\d+)", out)
            if not m:
                raise MachineryError("TLC error during trace validation of %s:\n%s" % (path, out[:300] + out[-2500:]))
            if doc is None:
                with open(path) as f:
                    doc = json.load(f)
            ci = int(m.group(1))
            nc = len(doc["cases"])
            bad = doc["cases"][ci - 1] if ci <= nc else doc["sessions"][ci - nc - 1]
            msg = re.search(r"The exception was a [^\n]*\n: ([^\n]*(?:\n[^\n]*){0,2})", out)
            why = (msg.group(1) if msg else "TLC evaluation error")[:300]
            verdicts[bad["id"]] = {"id": bad["id"], "st": "spec-error", "at": 0, "why": why}
            if ci <= nc and module == "Trace":
                for x in doc["sessions"]:
                    if ci in x["cs"]:
                        verdicts[x["id"]] = {"id": x["id"], "st": "spec-error", "at": 0, "why": "member call: " + why}
            doc["done"] = sorted(verdicts)
            if len(verdicts) >= nc + (len(doc["sessions"]) if module == "Trace" else 0):
                break
            cur = path + ".retry"
            with open(cur, "w") as f:
                json.dump(doc, f, separators=(",", ":"))
        else:
            raise MachineryError("too many TLC evaluation errors in %s" % path)
    finally:
        if cur != path and os.path.exists(cur):
            os.remove(cur)
    return list(verdicts.values()), total
