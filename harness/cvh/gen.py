"""Seeded generators of programs (surface ASTs), build values and parse inputs (DESIGN.md 3.3, source (c))."""
import random, struct
from . import ast as A
from . import values as V

ALPHABET = [0x00, 0x01, 0x7f, 0x80, 0xff]
ENCODINGS = ["ascii", "utf8", "utf16", "utf_16_le", "utf_16_be", "utf32", "utf_32_le", "utf_32_be"]
INT_ALIASES = [a for a in A.ALIASES if a.startswith("Int") or a in ("Byte", "Short", "Int", "Long")]
FLOAT_ALIASES = [a for a in A.ALIASES if a.startswith("Float") or a in ("Half", "Single", "Double")]
BIT_ALIASES = ["Bit", "Nibble", "Octet"]

class Env:
    "generation-time mirror of the context: names of integer-valued earlier siblings etc."
    def __init__(self, parent=None, kw=None):
        self.parent = parent
        self.ints = []          # names of earlier integer members usable as lengths/counts
        self.kw = kw if kw is not None else (parent.kw if parent else {})
        self.depth = 0 if parent is None else parent.depth + 1

def rbytes(rng, n):
    return bytes(rng.choice(ALPHABET) if rng.random() < 0.7 else rng.randrange(256) for _ in range(n))

def small_len(rng):
    return rng.choice([0, 1, 1, 2, 2, 3, 4])

def int_leaf(rng):
    r = rng.random()
    if r < 0.45:
        return A.Alias(rng.choice(INT_ALIASES))
    if r < 0.6:
        return A.BytesInteger(rng.choice([1, 2, 3, 4, 5, 8, 16]), signed=rng.random() < 0.5, swapped=rng.random() < 0.5)
    if r < 0.7:
        return A.FormatField(rng.choice("<>="), rng.choice("BHLQbhlq"))
    if r < 0.85:
        return A.VarInt
    return A.ZigZag

def len_field(rng):
    "an unsigned-ish integer field usable as length/count prefix"
    return rng.choice([A.Alias("Byte"), A.Alias("Int8ub"), A.Alias("Int16ub"), A.Alias("Int16ul"), A.VarInt, A.Alias("Int8sb"),
                       A.BytesInteger(2), A.Alias("Int24ub")])

def len_expr(rng, env, lo=0):
    "a length / count parameter: constant, earlier sibling, parent sibling or keyword"
    r = rng.random()
    if env.ints and r < 0.45:
        name = rng.choice(env.ints)
        e = A.T(name)
        if rng.random() < 0.25:
            e = A.Bin(rng.choice(["+", "-", "*", "//", "%"]), e, A.C(rng.choice([1, 2, 3])))
        return e
    if env.parent is not None and env.parent.ints and r < 0.55:
        return A.T("_", rng.choice(env.parent.ints))
    if env.kw and r < 0.65:
        return A.T("_params", rng.choice(sorted(env.kw)))
    return A.C(max(lo, small_len(rng)))

def leaf(rng, env, greedy_ok):
    r = rng.random()
    if r < 0.30:
        return int_leaf(rng)
    if r < 0.36:
        return A.Alias(rng.choice(FLOAT_ALIASES))
    if r < 0.46:
        return A.Bytes(len_expr(rng, env))
    if r < 0.50:
        return A.Flag
    if r < 0.56:
        return A.PaddedString(len_expr(rng, env), rng.choice(ENCODINGS))
    if r < 0.61:
        return A.PascalString(len_field(rng), rng.choice(ENCODINGS))
    if r < 0.66:
        return A.CString(rng.choice(ENCODINGS))
    if r < 0.70:
        return A.Const(rbytes(rng, rng.choice([1, 2, 3])))
    if r < 0.73:
        sub = A.Alias(rng.choice(["Byte", "Int16ub", "Int16sl", "Int8sb"]))
        return A.Const(rng.choice([0, 1, 127, 255]) if "s" not in sub["name"][4:] else rng.choice([-1, 0, 1, 127]), sub)
    if r < 0.76:
        return A.Computed(len_expr(rng, env) if rng.random() < 0.6 else A.C(rng.choice([None, 7, b"x", "s", True])))
    if r < 0.79:
        return A.Padding(len_expr(rng, env), pat=rng.choice([0, 0, 0xff]))
    if r < 0.82:
        return A.Tell
    if r < 0.84:
        return A.Pass
    if r < 0.86:
        return A.Index
    if r < 0.88 and env.ints:
        return A.Check(A.Bin(rng.choice(["==", "!=", "<", ">="]), A.T(rng.choice(env.ints)), A.C(rng.choice([0, 1, 2, 255]))))
    if r < 0.89:
        return A.Error
    if r < 0.91 and env.ints:
        return A.StopIf(A.Bin(rng.choice(["==", ">"]), A.T(rng.choice(env.ints)), A.C(rng.choice([0, 1, 2]))))
    if greedy_ok:
        rr = rng.random()
        if rr < 0.4:
            return A.GreedyBytes
        if rr < 0.6:
            return A.GreedyString(rng.choice(ENCODINGS))
        if rr < 0.7:
            return A.Terminated
    return int_leaf(rng)

def int_valued(n):
    k = n["k"]
    if k == "Alias":
        return n["name"] in INT_ALIASES or n["name"] in BIT_ALIASES
    if k in ("BytesInteger", "BitsInteger", "VarInt", "ZigZag"):
        return True
    if k == "FormatField":
        return n["fc"] in "BHLQbhlq"
    if k in ("Renamed", "Default", "Rebuild", "Hex", "OneOf", "NoneOf"):
        return int_valued(n["sub"])
    if k == "Const":
        return n["val"]["t"] == "int"
    return False

def members(rng, env, depth, n, greedy_ok, bit=False):
    subs = []
    names = iter("abcdefgh")
    for i in range(n):
        last = i == n - 1
        sub = node(rng, env, depth - 1, greedy_ok and last, bit)
        if rng.random() < 0.85:
            name = next(names)
            subs.append(A.Renamed(name, sub))
            if int_valued(sub):
                env.ints.append(name)
        else:
            subs.append(sub)
    return subs

def bit_leaf(rng, env):
    r = rng.random()
    if r < 0.5:
        w = rng.choice([1, 2, 3, 4, 5, 7, 8, 9, 12, 16, 24])
        return A.BitsInteger(w, signed=rng.random() < 0.3, swapped=(w % 8 == 0 and rng.random() < 0.4))
    if r < 0.65:
        return A.Alias(rng.choice(BIT_ALIASES))
    if r < 0.75:
        return A.Flag
    if r < 0.85:
        return A.Padding(rng.choice([1, 2, 3, 4]))
    if r < 0.93:
        return A.Bytewise(rng.choice([A.Bytes(1), A.Alias("Byte"), A.Alias("Int16ul")]))
    return A.BitsInteger(len_expr(rng, env, 1))

def node(rng, env, depth, greedy_ok=False, bit=False):
    if bit:
        if depth <= 0 or rng.random() < 0.6:
            return bit_leaf(rng, env)
        r = rng.random()
        if r < 0.5:
            e2 = Env(env)
            return A.Struct(*members(rng, e2, depth, rng.choice([1, 2, 3]), False, True))
        if r < 0.8:
            return A.Array(rng.choice([0, 1, 2, 3]), node(rng, env, depth - 1, False, True))
        return bit_leaf(rng, env)
    if depth <= 0 or rng.random() < 0.25:
        return leaf(rng, env, greedy_ok)
    r = rng.random()
    if r < 0.16:
        e2 = Env(env)
        return A.Struct(*members(rng, e2, depth, rng.choice([1, 2, 2, 3, 4]), greedy_ok))
    if r < 0.21:
        e2 = Env(env)
        return A.Sequence(*members(rng, e2, depth, rng.choice([1, 2, 3]), greedy_ok))
    if r < 0.28:
        return A.Array(len_expr(rng, env), node(rng, env, depth - 1))
    if r < 0.32 and greedy_ok:
        return A.GreedyRange(node(rng, env, depth - 1), discard=rng.random() < 0.1)
    if r < 0.35:
        sub = int_leaf(rng)
        return A.RepeatUntil(A.Bin(rng.choice(["==", ">", "!="]), A.Obj, A.C(rng.choice([0, 1, 255]))), sub)
    if r < 0.39:
        return A.PrefixedArray(len_field(rng), node(rng, Env(env), depth - 1))      # the macro's FocusedSeq is a scope of its own
    if r < 0.46:
        return A.Prefixed(len_field(rng), node(rng, env, depth - 1, True), incl=rng.random() < 0.25)
    if r < 0.52:
        return A.FixedSized(len_expr(rng, env), node(rng, env, depth - 1, True))
    if r < 0.57:
        term = rng.choice([b"\x00", b"\x00", b"\xff", b"\x00\x00", b"\x01\x02"])
        return A.NullTerminated(node(rng, env, depth - 1, True), term=term, include=rng.random() < 0.3,
                                consume=rng.random() < 0.7, require=rng.random() < 0.7)
    if r < 0.60 and greedy_ok:
        return A.NullStripped(node(rng, env, depth - 1, True), pad=rng.choice([b"\x00", b"\xff", b"\x00\x00", b"\x00\x01"]))
    if r < 0.64:
        return A.Padded(len_expr(rng, env), node(rng, env, depth - 1), pat=rng.choice([0, 0x20]))
    if r < 0.68:
        return A.Aligned(rng.choice([2, 3, 4, 4, 8]) if rng.random() < 0.9 else len_expr(rng, env), node(rng, env, depth - 1), pat=rng.choice([0, 0xaa]))
    if r < 0.71:
        return A.Optional(node(rng, env, depth - 1))
    if r < 0.75:
        return A.Select(node(rng, env, depth - 1), node(rng, env, depth - 1, greedy_ok))
    if r < 0.79:
        cond = A.Bin(rng.choice(["==", "<", ">=", "!="]), A.T(rng.choice(env.ints)), A.C(rng.choice([0, 1, 2]))) if env.ints else A.C(rng.random() < 0.5)
        if rng.random() < 0.5:
            return A.If(cond, node(rng, env, depth - 1, greedy_ok))
        return A.IfThenElse(cond, node(rng, env, depth - 1, greedy_ok), node(rng, env, depth - 1, greedy_ok))
    if r < 0.82:
        key = A.T(rng.choice(env.ints)) if env.ints else A.C(rng.choice([0, 1]))
        cases = [(k, node(rng, env, depth - 1)) for k in rng.sample([0, 1, 2, 3], rng.choice([1, 2]))]
        return A.Switch(key, cases, default=None if rng.random() < 0.5 else node(rng, env, depth - 1))
    if r < 0.85:
        sub = A.Alias(rng.choice(["Byte", "Int16ub", "Int8sb", "Int16ul"]))
        labels = rng.sample(["one", "two", "three", "four"], rng.choice([1, 2, 3]))
        return A.Enum(sub, **{l: v for l, v in zip(labels, rng.sample([0, 1, 2, 3, 255], len(labels)))})
    if r < 0.87:
        sub = A.Alias(rng.choice(["Byte", "Int16ub"]))
        labels = rng.sample(["a", "b", "c", "d"], rng.choice([1, 2, 3]))
        return A.FlagsEnum(sub, **{l: v for l, v in zip(labels, rng.sample([1, 2, 4, 8, 3, 0x80], len(labels)))})
    if r < 0.89:
        sub = A.Alias(rng.choice(["Byte", "Int16ub"]))
        return A.Mapping(sub, list(zip(rng.sample(["x", "y", b"z", 5, None], 2), rng.sample([0, 1, 2, 3], 2))))
    if r < 0.91:
        sub = A.Alias(rng.choice(["Byte", "Int8sb"]))
        return rng.choice([A.OneOf, A.NoneOf])(sub, rng.sample([0, 1, 2, 127, 255, -1], 2))
    if r < 0.93:
        return A.Default(int_leaf(rng), rng.choice([0, 1, 7]))
    if r < 0.94 and env.ints:
        return A.Rebuild(A.Alias("Byte"), len_expr(rng, env))
    if r < 0.955:
        e2 = Env(env)
        return A.Bitwise(A.Struct(*members(rng, e2, min(depth, 2), rng.choice([1, 2, 3, 4]), False, True))) if rng.random() < 0.7 else \
               A.BitStruct(*members(rng, e2, min(depth, 2), rng.choice([1, 2, 3, 4]), False, True))
    if r < 0.965:
        return rng.choice([A.ByteSwapped, A.BitsSwapped])(A.Alias(rng.choice(["Int16ub", "Int24ub", "Int32sl"])) if rng.random() < 0.6 else A.Bytes(rng.choice([1, 2, 3])))
    if r < 0.975:
        return A.RawCopy(node(rng, env, depth - 1))
    if r < 0.985:
        return A.Peek(node(rng, env, depth - 1))
    if r < 0.99:
        return rng.choice([A.Hex, A.HexDump])(rng.choice([A.Alias("Int16ub"), A.Bytes(2)]))
    return A.Pointer(A.C(rng.choice([0, 1, 2, -1])), node(rng, env, depth - 1))

def program(rng, depth=3, kw=None, greedy_ok=True):
    return node(rng, Env(kw=kw or {}), depth, greedy_ok)

# ---------------------------------------------------------------- build values
class VEnv:
    def __init__(self, parent=None, kw=None):
        self.parent = parent
        self.vars = {}
        self.kw = kw if kw is not None else (parent.kw if parent else {})
        self.index = None if parent is None else parent.index
    def top(self):
        e = self
        while e.parent is not None:
            e = e.parent
        return e

class Unknown(Exception):
    pass

def eval_expr(e, env, root=None):
    "independent mini-evaluator used only to choose consistent build values"
    x = e["x"]
    if x == "const":
        return V.dec(e["v"])
    if x in ("this", "obj"):
        return env if root is None else root
    if x == "item":
        o = eval_expr(e["o"], env, root)
        n = e["n"]
        if isinstance(o, VEnv):
            if n == "_":
                if o.parent is None: raise Unknown()
                return o.parent
            if n == "_params":
                t = o.top(); p = VEnv(); p.vars = dict(t.kw); return p
            if n == "_root":
                raise Unknown()
            if n == "_index":
                if o.index is None: raise Unknown()
                return o.index
            if n in o.vars:
                return o.vars[n]
            if o.parent is None and n in o.kw:
                return o.kw[n]
            raise Unknown()
        if isinstance(o, dict):
            if n in o: return o[n]
        raise Unknown()
    if x == "bin":
        l = eval_expr(e["l"], env, root); r = eval_expr(e["r"], env, root)
        try:
            return A._BIN[e["op"]](l, r)
        except Exception:
            raise Unknown()
    if x == "func":
        a = eval_expr(e["a"], env, root)
        try:
            return {"len": len, "sum": sum, "min": min, "max": max, "abs": abs}[e["f"]](a)
        except Exception:
            raise Unknown()
    raise Unknown()

def _ev(e, env, default):
    try:
        v = eval_expr(e, env)
        return v
    except Unknown:
        return default

INT_RANGES = {"B": (0, 255), "H": (0, 65535), "L": (0, 2**32 - 1), "Q": (0, 2**64 - 1),
              "b": (-128, 127), "h": (-32768, 32767), "l": (-2**31, 2**31 - 1), "q": (-2**63, 2**63 - 1)}
def alias_info(name):
    "(kind, lo, hi) for integer aliases"
    if name in ("Byte",): return (0, 255)
    if name == "Short": return (0, 65535)
    if name == "Int": return (0, 2**32 - 1)
    if name == "Long": return (0, 2**64 - 1)
    if name == "Bit": return (0, 1)
    if name == "Nibble": return (0, 15)
    if name == "Octet": return (0, 255)
    bits = int("".join(c for c in name[3:] if c.isdigit()))
    signed = name[3 + len(str(bits))] == "s"
    return (-(1 << (bits - 1)), (1 << (bits - 1)) - 1) if signed else (0, (1 << bits) - 1)

def pick_int(rng, lo, hi, small=False):
    if small:                       # the value is used as a length / count / selector by another member
        cands = [v for v in (0, 1, 2, 3, 4, 8) if lo <= v <= hi]
        if cands:
            return rng.choice(cands) if rng.random() < 0.93 else rng.choice([v for v in (-1, 16, 40, 64) if lo <= v <= hi] or cands)
    r = rng.random()
    if r < 0.5:
        return rng.choice([v for v in (lo, hi, 0, 1, -1, 127, 128, 255, 256, lo + 1, hi - 1) if lo <= v <= hi])
    if r < 0.58:
        return rng.choice([lo - 1, hi + 1])       # out of range: must be rejected
    return rng.randint(lo, hi)

FLOATS = [0.0, -0.0, 1.0, -1.0, 0.5, 1.5, 3.140625, 65504.0, 65520.0, 1e-8, 5.960464477539063e-08, 6.1e-05, 3.4028234663852886e+38,
          3.5e38, 1e39, 1e308, float("inf"), float("-inf"), float("nan"), 1.1, 2.0 ** -126, 2.0 ** -149, 2.0 ** -150, 16777217.0, 0.1]
STRS = ["", "a", "ab", "abc", "é", "€", "aé€", "\U0001f600", "x\x00y", "\x00", "A" * 5, "﻿", "zĀ"]

def used_as_param(prog):
    "names of members referenced by expressions somewhere (they should get small values)"
    names = set()
    def ex(e):
        if not isinstance(e, dict) or "x" not in e: return
        if e["x"] == "item":
            names.add(e["n"]); ex(e["o"])
        for k in ("l", "r", "a", "o"):
            if k in e and isinstance(e[k], dict): ex(e[k])
    def nd(n):
        for k, v in n.items():
            if isinstance(v, dict):
                if "x" in v: ex(v)
                elif "k" in v: nd(v)
            elif isinstance(v, list):
                for s in v:
                    if isinstance(s, dict) and "k" in s: nd(s)
    nd(prog)
    return names

def value(rng, n, env, small=False, params=frozenset()):
    """a build value for node n (mostly inside its domain, sometimes just outside)."""
    k = n["k"]
    Vv = lambda sub, **kw: value(rng, sub, env, params=params, **kw)
    if k == "Alias":
        nm = n["name"]
        if nm in FLOAT_ALIASES:
            return rng.choice(FLOATS) if rng.random() < 0.9 else rng.uniform(-1e6, 1e6)
        lo, hi = alias_info(nm)
        return pick_int(rng, lo, hi, small)
    if k == "FormatField":
        fc = n["fc"]
        if fc in INT_RANGES:
            return pick_int(rng, *INT_RANGES[fc], small)
        if fc == "?":
            return rng.choice([True, False, 1, 0])
        return rng.choice(FLOATS)
    if k in ("BytesInteger", "BitsInteger"):
        L = _ev(n["len"], env, 1)
        if not isinstance(L, int) or L < 1 or L > 64: L = 1
        bits = L * 8 if k == "BytesInteger" else L
        lo, hi = (-(1 << (bits - 1)), (1 << (bits - 1)) - 1) if n["signed"] else (0, (1 << bits) - 1)
        return pick_int(rng, lo, hi, small)
    if k == "VarInt":
        return pick_int(rng, 0, rng.choice([127, 128, 16383, 16384, 2**21, 2**32, 2**64, 2**70]), small)
    if k == "ZigZag":
        b = rng.choice([63, 64, 8191, 8192, 2**31, 2**63, 2**65])
        return pick_int(rng, -b, b, small)
    if k == "Bytes":
        L = _ev(n["len"], env, 1)
        if not isinstance(L, int) or L < 0 or L > 64: L = 1
        if rng.random() < 0.05: L += rng.choice([-1, 1])
        if rng.random() < 0.15 and L >= 1:          # Bytes builds from an integer too
            return rng.randrange(0, 256 ** min(L, 3))
        return rbytes(rng, max(L, 0))
    if k == "GreedyBytes":
        return rbytes(rng, small_len(rng))
    if k in ("PaddedString", "PascalString", "CString", "GreedyString", "StringEncoded"):
        s = rng.choice(STRS)
        if k == "CString" and rng.random() < 0.9: s = s.replace("\x00", "")
        return s
    if k == "Flag":
        return rng.choice([True, False, 0, 1, 2, None])
    if k == "Enum":
        r = rng.random()
        names = ["".join(map(chr, x)) for x in n["names"]]
        if r < 0.08 and names:
            # a label object made by another Enum (or by hand): a str equal to one of this Enum's labels that carries some other integer
            from construct import EnumIntegerString
            return EnumIntegerString.new(rng.choice([0, 1, 3, 9, 255]), rng.choice(names))
        if r < 0.5: return rng.choice(names)
        if r < 0.6: return "nosuch"
        if r < 0.8: return V.dec(rng.choice(n["vals"]))
        return Vv(n["sub"])
    if k == "FlagsEnum":
        r = rng.random()
        names = n["names"]
        if r < 0.4: return {nm: rng.random() < 0.5 for nm in names}
        if r < 0.6: return " | ".join(rng.sample(names, rng.randint(0, len(names)))) if rng.random() < 0.5 else "|".join(rng.sample(names, rng.randint(0, len(names))))
        if r < 0.7: return rng.choice(["zz", {"zz": True}, {"zz": False, "_x": 1}])
        return rng.choice([0, 1, 3, 255])
    if k == "Mapping":
        if rng.random() < 0.8: return V.dec(rng.choice(n["mk"]))
        return rng.choice(["nosuch", 99, [1]])
    if k in ("Struct", "BitStruct", "AlignedStruct"):
        e2 = VEnv(env)
        out = {}
        for sc in n["subs"]:
            nm = sc["name"] if sc["k"] == "Renamed" else None
            inner = sc["sub"] if nm else sc
            if nm is None:
                continue
            if buildnone(inner) and rng.random() < 0.6:
                continue
            val = value(rng, inner, e2, small=(nm in params), params=params)
            out[nm] = val
            e2.vars[nm] = _ctx_value(inner, val, e2)
        return out
    if k == "Sequence":
        e2 = VEnv(env)
        out = []
        for sc in n["subs"]:
            nm = sc["name"] if sc["k"] == "Renamed" else None
            inner = sc["sub"] if nm else sc
            val = value(rng, inner, e2, small=(nm in params), params=params)
            out.append(val)
            if nm: e2.vars[nm] = val
        return out
    if k == "Array":
        c = _ev(n["count"], env, 1)
        if not isinstance(c, int) or c < 0 or c > 6: c = 1
        if rng.random() < 0.04: c += 1
        out = []
        for i in range(c):
            env.index = i
            out.append(Vv(n["sub"]))
        return out
    if k in ("GreedyRange", "PrefixedArray"):
        out = []
        for i in range(rng.choice([0, 1, 2, 3])):
            env.index = i
            out.append(Vv(n["sub"]))
        return out
    if k == "RepeatUntil":
        out = [Vv(n["sub"], small=True) for _ in range(rng.choice([1, 2, 3]))]
        # make the last element satisfy the predicate when it is `obj_ OP const`
        p = n["pred"]
        if p["x"] == "bin" and p["l"]["x"] == "obj" and p["r"]["x"] == "const" and rng.random() < 0.85:
            cst = V.dec(p["r"]["v"])
            good = {"==": cst, ">": cst + 1, "!=": cst + 1}.get(p["op"], cst)
            out = [x for x in out if not _sat(p["op"], x, cst)] + [good]
        return out
    if k in ("Renamed", "Prefixed", "FixedSized", "NullTerminated", "NullStripped", "Padded", "Aligned", "Optional", "Peek",
             "Pointer", "Hex", "HexDump", "ByteSwapped", "BitsSwapped", "Bitwise", "Bytewise", "ProcessXor", "ProcessRotateLeft",
             "Transformed", "Restreamed", "Lazy", "OffsettedEnd", "If", "Compressed"):
        if k in ("Optional", "If") and rng.random() < 0.2:
            return None
        return Vv(n["sub"], small=small)
    if k in ("OneOf", "NoneOf"):
        if rng.random() < 0.5: return V.dec(rng.choice(n["vals"]))
        return Vv(n["sub"])
    if k == "Const":
        r = rng.random()
        if r < 0.6: return None
        if r < 0.85: return V.dec(n["val"])
        return Vv(n["sub"])
    if k in ("Computed", "Index", "Check", "Error", "Tell", "Pass", "Terminated", "StopIf", "Padding", "Seek"):
        return None if rng.random() < 0.8 else rng.choice([0, b"x", 5])
    if k == "Rebuild":
        return None if rng.random() < 0.7 else Vv(n["sub"])
    if k == "Default":
        return None if rng.random() < 0.5 else Vv(n["sub"])
    if k == "Select":
        return Vv(rng.choice(n["subs"]))
    if k == "IfThenElse":
        c = _ev(n["cond"], env, None)
        if c is None: return Vv(rng.choice([n["then"], n["else"]]))
        return Vv(n["then"] if c else n["else"])
    if k == "Switch":
        key = _ev(n["key"], env, None)
        for ck, cv in zip(n["ck"], n["cv"]):
            if key is not None and V.dec(ck) == key:
                return Vv(cv)
        return Vv(n["default"])
    if k == "RawCopy":
        r = rng.random()
        if r < 0.6: return {"value": Vv(n["sub"])}
        if r < 0.85: return {"data": rbytes(rng, small_len(rng))}
        return rng.choice([{}, None, {"value": Vv(n["sub"]), "data": rbytes(rng, 2)}])
    if k == "FocusedSeq":
        sel = _ev(n["sel"], env, None)
        for sc in n["subs"]:
            if sc["k"] == "Renamed" and sc["name"] == sel:
                return value(rng, sc["sub"], VEnv(env), params=params)
        return None
    if k == "Union":
        cands = [sc for sc in n["subs"] if sc["k"] == "Renamed"]
        if not cands: return {}
        sc = rng.choice(cands)
        return {sc["name"]: value(rng, sc["sub"], VEnv(env), params=params)}
    if k in ("LazyStruct",):
        return value(rng, dict(n, k="Struct"), env, params=params)
    if k == "LazyArray":
        return value(rng, dict(n, k="Array", discard=False), env, params=params)
    if k == "Checksum":
        return None
    return None

def _sat(op, x, c):
    try:
        return {"==": x == c, ">": x > c, "!=": x != c}[op]
    except Exception:
        return False

_BN = {"Const", "Computed", "Index", "Rebuild", "Default", "Check", "Error", "Peek", "Seek", "Tell", "Pass", "Terminated",
       "StopIf", "Checksum", "Padding", "Optional"}
def buildnone(n):
    k = n["k"]
    if k in _BN: return True
    if k in ("Struct", "Sequence"): return all(buildnone(s) for s in n["subs"])
    if k == "Select": return any(buildnone(s) for s in n["subs"])
    if k == "IfThenElse": return buildnone(n["then"]) and buildnone(n["else"])
    if k == "If": return buildnone(n["sub"])
    if k == "Switch": return all(buildnone(s) for s in n["cv"]) and buildnone(n["default"])
    if k in ("FocusedSeq", "Union"): return False
    if "sub" in n: return buildnone(n["sub"])
    return False

def _ctx_value(inner, val, env):
    "what the member leaves in the context: Bytes converts an integer to bytes before writing"
    if inner["k"] == "Bytes" and isinstance(val, int) and not isinstance(val, bool):
        L = _ev(inner["len"], env, 1)
        try:
            return val.to_bytes(L, "big")
        except Exception:
            return val
    return val

def build_value(rng, prog, kw=None):
    env = VEnv(kw=kw or {})
    return value(rng, prog, env, params=frozenset(used_as_param(prog)))

# ---------------------------------------------------------------- parse inputs
def random_input(rng, maxlen=8):
    return rbytes(rng, rng.randint(0, maxlen))

def mutate(rng, b):
    "bit flip / insertion / deletion / truncation of a (canonical) encoding"
    b = bytearray(b)
    r = rng.random()
    if r < 0.3 and b:
        i = rng.randrange(len(b)); b[i] ^= 1 << rng.randrange(8)
    elif r < 0.5:
        b.insert(rng.randint(0, len(b)), rng.choice(ALPHABET))
    elif r < 0.65 and b:
        del b[rng.randrange(len(b))]
    elif r < 0.85 and b:
        del b[rng.randrange(len(b)):]
    else:
        b.extend(rbytes(rng, rng.randint(1, 3)))
    return bytes(b)
