"""C04  A compiled construct behaves exactly like the construct it was compiled from.

For every program of the compilable fragment (documented feature set: no _index / Index, no parsed hooks, no discard, no _subcons, expressions only as this / obj_ / len_
objects) -- random programs, the systematic wrapper x leaf universe, and expression-heavy conditionals (string and bytes constants, unary operators, reflected operands)
-- wrapped so that dependent probe members (Computed(this.x), Bytes(this.n), Tell) follow every composite: compile(), then every call is run on the interpreter and on
the compiled instance.  TLC evaluates C04Equiv on each recorded pair (equal value and position for every input the original accepts, identical bytes for every value
it builds, equal sizeof) and validates the interpreter side against Sem.  Design level: rendering faithfulness of inlined expressions is MC_C11.
"""
import json
from .. import ast as A, gen, values as V, campaign, universes as U, speccode
from . import common

LEVEL = "model_checking"
CLAUSE = "C04.equiv"
NOT_COMPILABLE = ("Index", "_index", "discard\": true", "RestreamData")

def expression_programs(rng):
    "conditionals, lengths and counts driven by every kind of expression"
    out = []
    conds = [A.Bin("==", A.T("s"), A.C("x")), A.Bin("!=", A.T("s"), A.C("ab")), A.Bin("==", A.T("raw"), A.C(b"\x01")), A.Bin(">", A.T("n"), A.C(1)),
             A.Uni("not", A.Bin("==", A.T("n"), A.C(2))), A.Bin("|", A.Bin("==", A.T("s"), A.C("x")), A.Bin("==", A.T("s"), A.C("y"))),
             A.Bin("&", A.Bin(">", A.T("n"), A.C(0)), A.Uni("not", A.Bin("==", A.T("s"), A.C("")))), A.Bin("==", A.Bin("+", A.T("s"), A.C("z")), A.C("xz")),
             A.Bin("<", A.Bin("**", A.Uni("-", A.T("n")), A.C(2)), A.C(5)), A.Bin("==", A.Bin("**", A.C(-1), A.T("n")), A.C(1)), A.Bin(">=", A.Func("len", A.T("s")), A.C(1)),
             A.Bin("==", A.Bin("%", A.T("n"), A.C(2)), A.C(0)), A.Bin("<", A.C(1), A.T("n")), A.T("flag")]
    lens = [A.T("n"), A.Bin("+", A.T("n"), A.C(1)), A.Bin("*", A.C(2), A.T("n")), A.Bin("-", A.C(4), A.T("n")), A.Func("len", A.T("s")), A.Bin("//", A.Bin("+", A.T("n"), A.C(3)), A.C(2)),
            A.Func("abs", A.Uni("-", A.T("n"))), A.Bin(">>", A.Bin("<<", A.T("n"), A.C(2)), A.C(1)), A.Bin("&", A.T("n"), A.C(3)), A.Bin("^", A.T("n"), A.C(1))]
    hdr = [A.Renamed("n", A.Alias("Byte")), A.Renamed("s", A.PascalString(A.Alias("Byte"), "utf8")), A.Renamed("raw", A.Bytes(1)), A.Renamed("flag", A.Flag)]
    for c in conds:
        out.append(A.Struct(*hdr, A.Renamed("v", A.IfThenElse(c, A.Alias("Int16ub"), A.Alias("Byte"))), A.Renamed("t", A.Tell)))
        out.append(A.Struct(*hdr, A.Renamed("v", A.If(c, A.Alias("Int16ul"))), A.Renamed("w", A.Computed(A.T("v")))))
        out.append(A.Struct(*hdr, A.StopIf(c), A.Renamed("v", A.Alias("Byte"))))
        out.append(A.Struct(*hdr, A.Check(c) if rng.random() < 0.5 else A.Renamed("v", A.Computed(c))))
    for l in lens:
        out.append(A.Struct(*hdr, A.Renamed("d", A.Bytes(l)), A.Renamed("t", A.Tell)))
        out.append(A.Struct(*hdr, A.Renamed("d", A.Array(l, A.Alias("Int16ub"))), A.Renamed("c", A.Computed(A.Func("len", A.T("d"))))))
        out.append(A.Struct(*hdr, A.Renamed("d", A.Padded(l, A.Alias("Byte"))), A.Renamed("e", A.FixedSized(l, A.GreedyBytes))))
        out.append(A.Struct(*hdr, A.Renamed("d", A.BytesInteger(l)), A.Renamed("e", A.PaddedString(l, "ascii"))))
        out.append(A.Struct(*hdr, A.Renamed("k", A.Switch(l, [(1, A.Alias("Byte")), (2, A.Alias("Int16ub")), (4, A.Bytes(1))], default=A.Pass)), A.Renamed("t", A.Tell)))
    out.append(A.Sequence(A.Renamed("a", A.Alias("Int16ub")), A.Renamed("b", A.Alias("Int16ul")), A.Renamed("c", A.Alias("Float32b")), A.Renamed("d", A.Alias("Float32l")),
                          A.Renamed("p", A.Computed(A.Bin("+", A.Bin("*", A.T("a"), A.C(1000)), A.T("b"))))))
    out.append(A.Sequence(A.Renamed("count", A.Default(A.Alias("Byte"), 3)), A.Renamed("items", A.Array(A.T("count"), A.Alias("Byte"))), A.Renamed("n", A.Rebuild(A.Alias("Byte"), A.Func("len", A.T("items")))), A.Renamed("z", A.Bytes(A.T("n")))))
    out.append(A.Sequence(A.Renamed("kind", A.Const(2, A.Alias("Byte"))), A.Renamed("v", A.Padded(A.Bin("+", A.T("kind"), A.C(1)), A.Alias("Byte"))), A.Renamed("w", A.IfThenElse(A.Bin(">", A.T("kind"), A.C(1)), A.Alias("Int16ub"), A.Alias("Byte")))))
    # constants carried by something other than Bytes(n): the bytes written are the member's encoding of the constant
    for sub in (A.NullTerminated(A.GreedyBytes), A.Prefixed(A.Alias("Byte"), A.GreedyBytes), A.Padded(5, A.GreedyBytes), A.Aligned(4, A.GreedyBytes),
                A.NullTerminated(A.GreedyBytes, term=b"\xff", include=False), A.FixedSized(6, A.NullStripped(A.GreedyBytes))):
        out.append(A.Struct(A.Renamed("sig", A.Const(rng.choice([b"abc", b"MZ", b"\x7fELF"]), sub)), A.Renamed("t", A.Tell), A.Renamed("x", A.Alias("Byte"))))
    for leaf in (A.Bytes(2), A.Bytes(A.T("_params", "k")) if False else A.Bytes(3), A.GreedyBytes, A.Array(2, A.Alias("Byte")), A.PaddedString(4, "utf8"), A.CString("utf8")):
        out.append(probe_wrap_len(leaf))
    # FocusedSeq: the focused value is in scope for every member, also for the ones that come before the focused one
    fs = [A.FocusedSeq("data", A.Renamed("len", A.Rebuild(A.Alias("Byte"), A.Func("len", A.T("data")))), A.Renamed("data", A.Bytes(A.T("len")))),
          A.FocusedSeq("v", A.Renamed("wide", A.Rebuild(A.Flag, A.Bin(">", A.T("v"), A.C(100)))), A.Renamed("v", A.IfThenElse(A.T("wide"), A.Alias("Int16ub"), A.Alias("Byte")))),
          A.FocusedSeq("n", A.Const(b"\x01"), A.Renamed("n", A.Alias("Byte")), A.Padding(A.Bin("&", A.T("n"), A.C(3)))),
          A.FocusedSeq("items", A.Renamed("twice", A.Rebuild(A.Alias("Byte"), A.Bin("*", A.C(2), A.Func("len", A.T("items"))))), A.Renamed("items", A.Array(A.Bin("//", A.T("twice"), A.C(2)), A.Alias("Byte"))), A.Padding(1))]
    # several padding / alignment members with different fill patterns in one construct (generated helpers are shared by name)
    out.append(A.Struct(A.Renamed("name", A.Padded(6, A.Bytes(2), pat=0x20)), A.Renamed("kind", A.Alias("Byte")), A.Padding(3), A.Renamed("size", A.Padded(A.Bin("+", A.Bin("&", A.T("kind"), A.C(3)), A.C(2)), A.Alias("Int16ub"), pat=0xee)), A.Padding(2, pat=0x11), A.Renamed("t", A.Tell)))
    out.append(A.Struct(A.Renamed("a", A.Aligned(4, A.Alias("Byte"), pat=0xaa)), A.Renamed("b", A.Aligned(4, A.Alias("Byte"))), A.Renamed("c", A.Aligned(3, A.Alias("Int16ub"), pat=0x55)), A.Renamed("d", A.Padded(3, A.Alias("Byte"), pat=0x7f))))
    out.append(A.Sequence(A.Padded(3, A.Alias("Byte"), pat=0x01), A.Padded(3, A.Alias("Byte"), pat=0x02), A.Padded(3, A.Alias("Byte")), A.AlignedStruct(2, A.Renamed("x", A.Alias("Byte")), A.Renamed("y", A.Alias("Byte")))))
    for f in fs:
        out.append(f)
        out.append(A.Struct(A.Renamed("h", A.Alias("Byte")), A.Renamed("x", f), A.Renamed("t", A.Tell)))
    out.append(A.Struct(A.Renamed("sig", A.Const("ab", A.PaddedString(6, "utf8"))), A.Renamed("v", A.Const(300, A.VarInt)), A.Renamed("t", A.Tell)))
    return out

def probe_wrap(prog):
    return A.Struct(A.Renamed("n0", A.Alias("Byte")), A.Renamed("x", prog), A.Renamed("t", A.Tell), A.Renamed("c", A.Computed(A.T("n0"))), A.Renamed("z", A.Bytes(A.T("n0"))))

LEN_KINDS = {"Bytes", "GreedyBytes", "Array", "GreedyRange", "PaddedString", "CString", "GreedyString", "PascalString", "PrefixedArray", "Sequence"}
def probe_wrap_len(prog):
    "a later member whose length depends on the *type* of what the earlier member left in the context (len_ of bytes / str / list)"
    return A.Struct(A.Renamed("x", prog), A.Renamed("l", A.Array(A.Bin("*", A.Func("len", A.T("x")), A.C(0)), A.Alias("Byte"))), A.Renamed("t", A.Tell))

def run(ctx):
    rng = ctx.rng
    quick = ctx.quick()
    ctx.rule = ("a case is one call (parse of an accepted input, build of a buildable value, sizeof) run on the interpreter and on the compiled instance of the same program; "
                "non-trivial = the generated source has no linked (interpreter fallback) parser/builder for the whole program and the interpreter accepted")
    progs = [(p, {}) for p in expression_programs(rng)]
    progs += [(p, rng.choice([{"k": 2}, {"k": 1}])) for p in U.systematic(rng, 0.28 if quick else 1.0)]
    for i in range(200 if quick else 5000):
        kw = rng.choice([{}, {"k": 2}, {"k": 1, "w": 3}])
        p = gen.program(rng, rng.choice([1, 2, 2, 3]), kw)
        r = rng.random()
        progs.append((probe_wrap(p) if r < 0.45 else probe_wrap_len(p) if r < 0.7 and p["k"] in LEN_KINDS else p, kw))
    nt = 0
    failed_compile = 0
    linked = 0
    with campaign.Campaign(ctx, "c04", shard_size=1500) as camp:
        for i, (prog, kw) in enumerate(progs):
            s = json.dumps(prog)
            if any(x in s for x in NOT_COMPILABLE):
                continue
            con = campaign.realizable(prog)
            if con is None:
                continue
            try:
                comp = con.compile()
            except Exception:
                failed_compile += 1
                continue
            whole_linked = "linkedparsers" in comp.source.split("def parseall")[1].split("def buildall")[0] and comp.source.count("linkedparsers[") <= 2 and comp.source.count("\n") < 40
            if whole_linked:
                linked += 1
            oprog = {"k": "Opaque", "desc": "compiled"}
            inputs = [gen.random_input(rng, 8) for _ in range(3)]
            explicit = []
            if prog["k"] == "Struct" and len(prog["subs"]) == 3 and prog["subs"][1].get("name") == "l" and prog["subs"][0]["sub"]["k"] == "Bytes":
                explicit = [{"x": 258, "l": []}, {"x": 0, "l": []}]         # Bytes built from an integer leaves bytes in the context
            for _ in range(4 + len(explicit)):
                try:
                    v = explicit.pop() if explicit else gen.build_value(rng, prog, kw)
                except Exception:
                    continue
                pre = rng.choice([b"", b"\xee"])
                i1, c1 = camp.build(prog, con, v, pre, kw)
                i2, c2 = camp.build(oprog, comp, v, pre, kw)
                camp.sh.session(CLAUSE, [i1, i2])
                if c1["res"]["ok"]:
                    out = bytes(c1["res"]["v"]["b"])
                    inputs.append(out)
                    inputs.append(gen.mutate(rng, out))
                    nt += 0 if whole_linked else 1
            for data in inputs:
                st = rng.choice([0, 0, 1])
                i1, c1 = camp.parse(prog, con, b"\xee" * st + data, st, kw)
                i2, c2 = camp.parse(oprog, comp, b"\xee" * st + data, st, kw)
                camp.sh.session(CLAUSE, [i1, i2])
                if c1["res"]["ok"] and not whole_linked:
                    nt += 1
            i1, c1 = camp.sizeof(prog, con, kw)
            i2, c2 = camp.sizeof(oprog, comp, kw)
            camp.sh.session(CLAUSE, [i1, i2])
            if "k" in kw:       # ... and again under other keywords, on the same compiled instance
                for k2 in ({**kw, "k": kw["k"] + 1}, {**kw, "k": 0}):
                    i1, c1 = camp.sizeof(prog, con, k2)
                    i2, c2 = camp.sizeof(oprog, comp, k2)
                    camp.sh.session(CLAUSE, [i1, i2])
            camp.sh.maybe_flush()
            if i < 2:
                ctx.sample({"program": prog})
        # spec -> code: the sessions TLC explores on the model's universe, each call on the interpreter and on the compiled instance
        uprogs, ukw, sessions, _ = speccode.explore(ctx, focus="all", part=speccode.part_of(ctx, 24 if quick else 32))
        comps = {}
        def on(camp, prog, con, s, idx):
            key = s["pi"]
            if key not in comps:
                try:
                    comps[key] = None if any(x in json.dumps(prog) for x in NOT_COMPILABLE) else con.compile()
                except Exception:
                    comps[key] = None
            comp = comps[key]
            if comp is None:
                return
            oprog = {"k": "Opaque", "desc": "compiled"}
            for name in ("parse", "build", "reparse"):
                if idx[name] is None:
                    continue
                c = camp.sh.cases[idx[name] - 1]
                if c["op"] == "parse":
                    i2, _ = camp.parse(oprog, comp, bytes(c["data"]), 0, ukw)
                else:
                    try:
                        obj = V.dec(c["arg"])
                    except Exception:
                        continue
                    i2, _ = camp.build(oprog, comp, obj, b"", ukw, arg=c["arg"])
                camp.sh.session(CLAUSE, [idx[name], i2])
        nt += speccode.drive(camp, uprogs, ukw, sessions, on)
        vs = camp.validate()
        campaign.judge(ctx, camp, vs, conformance=None, clauses=(CLAUSE,))
        ctx.cov["distinct_nontrivial"] = nt
        ctx.cov["programs_failing_to_compile"] = failed_compile
        ctx.cov["programs_entirely_linked_to_interpreter"] = linked
    ctx.assumptions.append("programs whose compile() raises are outside the property (counted); excluded by documentation: _index / Index, parsed hooks, discard, _subcons, lambdas")
