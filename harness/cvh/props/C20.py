"""C20  Result containers and display helpers are faithful.

Design level (TLC, MC_C20 over spec/Containers.tla and Hex.tla): all operation histories to the bound on heaps with public, private and method-shadowing keys and
nested containers / lists: equality is reflexive, symmetric, transitive, ignores order and private entries; a shallow copy is independent at top level, a deep copy /
pickle round trip shares nothing; hexundump(hexdump(d, n), n) = d.
Conformance (TLC, TraceC20.tla): operation histories (set / setattr / del / pop / clear / update / append / copy / copy.copy / deepcopy / pickle with every protocol)
are executed on real Container / ListContainer objects; after every operation the whole object graph is projected through the attribute view, the key view and
iteration, with object identities, together with equality results (pairs, against plain dicts), search / search_all results; TLC replays each history on the
heap model and compares step by step.  hexdump texts are compared character by character with Hex.tla and read back.
"""
import copy, itertools, json, os, pickle, re
from .. import values as V, tlc, pipeline
from . import common

LEVEL = "model_checking"
KEYS = ["a", "b", "_p", "keys", "update"]
MISSING = {"t": "opaque", "r": "missing"}

class World:
    "real objects mirrored by object ids in creation order (as the heap model numbers them)"
    def __init__(self):
        self.objs = []            # index+1 = oid
        self.ids = {}
    def reg(self, o):
        if id(o) in self.ids:
            return self.ids[id(o)]
        self.objs.append(o); self.ids[id(o)] = len(self.objs)
        return len(self.objs)
    def val(self, v):
        import construct as cs
        if isinstance(v, (dict, list)):
            return {"t": "ref", "o": self.ids.get(id(v)) or self.reg(v)}
        return V.enc(v)
    def real(self, j):
        return self.objs[j["o"] - 1] if j["t"] == "ref" else V.dec(j)
    def cls(self, o):
        import construct as cs
        return "C" if isinstance(o, cs.Container) else "L" if isinstance(o, cs.ListContainer) else "d" if isinstance(o, dict) else "l"
    def reach(self, o, seen=None):
        seen = seen if seen is not None else []
        if any(o is s for s in seen): return seen
        seen.append(o)
        for v in (dict.values(o) if isinstance(o, dict) else list.__iter__(o)):
            if isinstance(v, (dict, list)): self.reach(v, seen)
        return seen
    def register_copy(self, src, dst):
        """number the objects of a deep copy as the model does: base + rank of the original among the reachable originals"""
        base = len(self.objs)
        R = sorted((self.ids[id(x)] for x in self.reach(src)))
        pairs = []
        def walk(a, b):
            if any(a is p for p, _ in pairs): return
            pairs.append((a, b))
            if isinstance(a, dict) and isinstance(b, dict):
                for k in dict.keys(a):
                    if k in b and isinstance(a[k], (dict, list)) and isinstance(dict.get(b, k), (dict, list)): walk(a[k], dict.get(b, k))
            elif isinstance(a, list) and isinstance(b, list):
                for x, y in zip(list.__iter__(a), list.__iter__(b)):
                    if isinstance(x, (dict, list)) and isinstance(y, (dict, list)): walk(x, y)
        walk(src, dst)
        want = {}
        for a, b in pairs:
            if id(b) not in self.ids:
                want[base + R.index(self.ids[id(a)]) + 1] = b
        for oid in sorted(want):
            while len(self.objs) < oid - 1:          # keep numbering aligned even if something is missing (will be reported)
                self.objs.append({}); 
            self.objs.append(want[oid]); self.ids[id(want[oid])] = len(self.objs)
    def observe(self, op, eqpairs):
        objs = []
        for o in self.objs:
            c = self.cls(o)
            if c in ("C", "d"):
                ks = list(dict.keys(o))
                vs = [self.val(dict.__getitem__(o, k)) for k in ks]
                attr, item = [], []
                if c == "C":
                    for k in ks:
                        try: attr.append(self.val(getattr(o, k)))
                        except Exception: attr.append(MISSING)
                        try: item.append(self.val(o[k]))
                        except Exception: item.append(MISSING)
                objs.append({"cls": c, "k": ks, "v": vs, "attr": attr, "item": item})
            else:
                xs = [self.val(x) for x in list.__iter__(o)]
                objs.append({"cls": c, "k": [], "v": xs, "attr": [], "item": []})
        eqs = []
        for i, j in eqpairs:
            a, b = self.objs[i - 1], self.objs[j - 1]
            try: r = bool(a == b) and not bool(a != b)
            except Exception: r = None
            eqs.append([i, j, r if r is not None else False])
        dicteq = []
        for o in self.objs:
            if self.cls(o) == "C":
                pub = {k: dict.__getitem__(o, k) for k in dict.keys(o) if not k.startswith("_")}
                dicteq.append(bool(o == pub) and bool(pub == o) and not bool(o == dict(pub, extra__=1)))
        return {"op": op, "objs": objs, "eqs": eqs, "dicteq": dicteq}

def run_history(rng, length, quick):
    import construct as cs
    w = World()
    steps = []
    def step(op):
        n = len(w.objs)
        pairs = [(i, j) for i in range(1, n + 1) for j in range(1, n + 1) if i != j]
        if len(pairs) > 12: pairs = rng.sample(pairs, 12)
        steps.append(w.observe(op, pairs))
    # start: a container, a list container, a container holding the list and a private key
    c1 = cs.Container(); w.reg(c1); step({"op": "newC"})
    l1 = cs.ListContainer(); w.reg(l1); step({"op": "newL"})
    c2 = cs.Container(); w.reg(c2); step({"op": "newC"})
    # a list that starts with a plain value and holds containers further on (what Sequence returns), searched like any other
    if rng.random() < 0.5:
        k = rng.choice(["a", "b"]); v = rng.choice([V.VInt(1), V.VInt(2), V.VStr("x")])
        c2[k] = w.real(v); step({"op": "set", "o": 3, "key": k, "val": v})
        for v in (rng.choice([V.VInt(0), V.VNone(), V.VBytes(b"")]), {"t": "ref", "o": 3}, rng.choice([V.VInt(7), {"t": "ref", "o": 3}])):
            l1.append(w.real(v)); step({"op": "append", "o": 2, "val": v})
        if rng.random() < 0.5:
            c1["b"] = l1; step({"op": "set", "o": 1, "key": "b", "val": {"t": "ref", "o": 2}})
    # a list held directly by a list (what Array(n, Array(m, Struct(...))) returns): records below it are found like any other
    if rng.random() < 0.35:
        l2 = cs.ListContainer(); w.reg(l2); step({"op": "newL"})
        o2 = len(w.objs)
        k = rng.choice(["a", "b"]); v = rng.choice([V.VInt(11), V.VInt(12), V.VStr("y")])
        c2[k] = w.real(v); step({"op": "set", "o": 3, "key": k, "val": v})
        for v in rng.sample([{"t": "ref", "o": 3}, V.VInt(5), {"t": "ref", "o": 3}], rng.choice([1, 2, 3])):
            l2.append(w.real(v)); step({"op": "append", "o": o2, "val": v})
        l1.append(l2); step({"op": "append", "o": 2, "val": {"t": "ref", "o": o2}})
        if rng.random() < 0.5 and "b" not in c1:
            c1["b"] = l1; step({"op": "set", "o": 1, "key": "b", "val": {"t": "ref", "o": 2}})
        for o in (2, 1, 2):
            pat = rng.choice(["a", "b", ".*", "[ab]"])
            match = [kk for kk in KEYS if re.compile(pat).match(kk)]
            allr = rng.random() < 0.6
            try:
                res = w.objs[o - 1].search_all(pat) if allr else w.objs[o - 1].search(pat)
            except Exception:
                res = None
            resj = [w.val(x) for x in (res or [])] if allr else ([] if res is None else [w.val(res)])
            step({"op": "search_all" if allr else "search", "o": o, "pat": pat, "match": match, "res": resj})
    # plain Python values that user code puts into containers (searched by key, never descended into)
    plain = rng.random() < 0.5
    if plain:
        d1 = {}; w.reg(d1); step({"op": "newd"})
        p1 = []; w.reg(p1); step({"op": "newl"})
    for _ in range(length):
        cons = [i + 1 for i, o in enumerate(w.objs) if w.cls(o) == "C"]
        lists = [i + 1 for i, o in enumerate(w.objs) if w.cls(o) == "L"]
        r = rng.random()
        o = rng.choice(cons)
        obj = w.objs[o - 1]
        if plain and rng.random() < 0.12:
            # fill the plain values, and hang them into a container under a searchable key
            which = rng.randrange(3)
            if which == 0:
                k = rng.choice(KEYS); v = rng.choice([V.VInt(1), V.VNone(), V.VStr("x")])
                od = next(i + 1 for i, x in enumerate(w.objs) if x is d1)
                d1[k] = w.real(v); step({"op": "set", "o": od, "key": k, "val": v})
            elif which == 1:
                v = rng.choice([V.VInt(1), V.VInt(0), V.VNone()])
                ol = next(i + 1 for i, x in enumerate(w.objs) if x is p1)
                p1.append(w.real(v)); step({"op": "append", "o": ol, "val": v})
            else:
                tgt = rng.choice([d1, p1])
                if not any(x is obj for x in w.reach(tgt)):
                    k = rng.choice(KEYS)
                    if k not in ("keys", "update"):
                        v = {"t": "ref", "o": next(i + 1 for i, x in enumerate(w.objs) if x is tgt)}
                        obj[k] = w.real(v); step({"op": "set", "o": o, "key": k, "val": v})
            continue
        def reaches(a, b):
            "can object a reach object b (identity) through nested values"
            return any(x is b for x in w.reach(a))
        def pickval(o):
            # never create a cycle (Python's == on a cyclic structure is a RecursionError; the property is about trees)
            ok = [i for i in range(1, len(w.objs) + 1) if i != o and not reaches(w.objs[i - 1], w.objs[o - 1])]
            if ok and rng.random() < 0.4:
                return {"t": "ref", "o": rng.choice(ok)}
            return rng.choice([V.VInt(0), V.VInt(0), V.VInt(1), V.VInt(2), V.VNone(), V.VNone(), V.VBytes(b""), V.VBool(False), V.VStr("x")])
        if r < 0.3:
            k = rng.choice(KEYS); v = pickval(o)
            if rng.random() < 0.5 or k in ("keys", "update"):
                obj[k] = w.real(v); step({"op": "set", "o": o, "key": k, "val": v})
            else:
                try:
                    setattr(obj, k, w.real(v)); step({"op": "setattr", "o": o, "key": k, "val": v})
                except Exception:
                    step({"op": "setattr", "o": o, "key": k, "val": v, "failed": True}); break
        elif r < 0.4 and len(obj):
            k = rng.choice(list(dict.keys(obj)))
            how = rng.choice(["del", "pop", "delattr"] if k not in ("keys", "update") else ["del", "pop"])
            try:
                if how == "del": del obj[k]
                elif how == "pop": dict.pop(obj, k)
                else: delattr(obj, k)
                step({"op": how, "o": o, "key": k})
            except Exception:
                step({"op": how, "o": o, "key": k, "failed": True}); break
        elif r < 0.45:
            dict.clear(obj); step({"op": "clear", "o": o})
        elif r < 0.55 and len(cons) > 1:
            srcs = [x for x in cons if x != o and not reaches(w.objs[x - 1], obj)]
            if not srcs:
                continue
            src = rng.choice(srcs)
            dict.update(obj, w.objs[src - 1]); step({"op": "update", "o": o, "src": src})
        elif r < 0.66 and lists:
            lo = rng.choice(lists); v = pickval(lo)
            if rng.random() < 0.5:
                cands = [i for i in cons if not reaches(w.objs[i - 1], w.objs[lo - 1])]
                if cands: v = {"t": "ref", "o": rng.choice(cands)}
            w.objs[lo - 1].append(w.real(v)); step({"op": "append", "o": lo, "val": v})
        elif r < 0.76 and len(w.objs) < 9:
            how = rng.choice(["method", "copy.copy"])
            new = obj.copy() if how == "method" else copy.copy(obj)
            w.reg(new); step({"op": "copy", "o": o, "how": how})
        elif r < 0.84 and len(w.objs) + len(w.reach(obj)) <= 12:
            new = copy.deepcopy(obj)
            w.register_copy(obj, new); step({"op": "deepcopy", "o": o})
        elif r < 0.90 and len(w.objs) + len(w.reach(obj)) <= 12:
            proto = rng.choice(range(0, pickle.HIGHEST_PROTOCOL + 1))
            new = pickle.loads(pickle.dumps(obj, proto))
            w.register_copy(obj, new); step({"op": "pickle", "o": o, "proto": proto})
        else:
            if rng.random() < 0.5 and lists:
                o = rng.choice(lists); obj = w.objs[o - 1]
            pat = rng.choice(["a", "b", ".*", "_p", "k.*", "[ab]", "zz"])
            match = [k for k in KEYS if re.compile(pat).match(k)]
            allr = rng.random() < 0.5
            try:
                res = obj.search_all(pat) if allr else obj.search(pat)
            except Exception:
                res = None
            if allr:
                resj = [w.val(x) for x in (res or [])]
            else:
                resj = [] if res is None else [w.val(res)]
            step({"op": "search_all" if allr else "search", "o": o, "pat": pat, "match": match, "res": resj})
    return steps

def run(ctx):
    import construct as cs
    from construct.lib import hexdump, hexundump
    rng = ctx.rng
    quick = ctx.quick()
    ctx.rule = ("a case is an operation history on real containers (length 4..10) with the full projection after every step, or one (byte string, line size) for the hex helpers; "
                "non-trivial = the history contains a copy / deepcopy / pickle followed by a mutation, or compares differently ordered / privately keyed containers")
    common.design_level(ctx, "MC_C20", workers=16)
    cases = []
    nt = 0
    for i in range(1500 if quick else 12000):
        steps = run_history(rng, rng.randint(4, 10), quick)
        cases.append({"id": "h%d" % i, "kind": "hist", "steps": steps})
        ops = [s["op"]["op"] for s in steps]
        if any(o in ("copy", "deepcopy", "pickle") for o in ops[:-1]):
            nt += 1
    # hex helpers: all short strings over an alphabet x line sizes, plus longer ones
    datas = [bytes(t) for n in range(0, 3) for t in itertools.product([0, 32, 65, 127, 255], repeat=n)]
    datas += [bytes(rng.randrange(256) for _ in range(rng.choice([5, 16, 17, 31, 32, 33, 100]))) for _ in range(10 if quick else 60)]
    for j, d in enumerate(datas):
        for n in ([1, 2, 3, 7, 8, 16, 17] if quick else range(1, 33)):
            text = hexdump(d, n)
            try:
                und = list(hexundump(text, n))
            except Exception:
                und = [-1]
            cases.append({"id": "x%d_%d" % (j, n), "kind": "hex", "data": list(d), "n": n, "lines": [[ord(c) for c in l] for l in text.split("\n")], "undump": und})
            nt += 1
    # dumps long enough for the wide offset column (65536 bytes and more), and the last ones below it: handed over by their ends
    for j, (L, n) in enumerate([(65535, 16), (65536, 16), (65536, 32), (65537, 7), (70001, 16)] if quick else [(65535, 16), (65536, 16), (65536, 32), (65537, 7), (70001, 16), (65536, 1), (131072, 32), (1048577, 32)]):
        d = bytes(rng.randrange(256) for _ in range(L))
        text = hexdump(d, n)
        tl = text.split("\n")
        try:
            und = bytes(hexundump(text, n))
            undlen = len(und)
        except Exception:
            und, undlen = b"", -1
        nl = (L + n - 1) // n
        win = []
        for li in sorted({0, 1, nl - 2, nl - 1}):
            if 0 <= li < nl and li + 1 < len(tl):
                win.append({"off": li * n, "slice": list(d[li * n:(li + 1) * n]), "line": [ord(c) for c in tl[li + 1]]})
        cases.append({"id": "xl%d" % j, "kind": "hexlong", "len": L, "n": n, "nlines": len(tl), "win": win, "undlen": undlen,
                      "undhead": list(und[:2 * n]), "undtail": list(und[-2 * n:]), "datahead": list(d[:2 * n]), "datatail": list(d[-2 * n:])})
        nt += 1
    ctx.sample({"history": [s["op"] for s in cases[0]["steps"]]})
    lasthex = next(c for c in reversed(cases) if c["kind"] == "hex")
    ctx.sample({"hex": {"data": lasthex["data"][:8], "n": lasthex["n"]}})
    paths = []
    os.makedirs(ctx.scratch, exist_ok=True)
    size = 300
    for k in range(0, len(cases), size):
        p = os.path.join(ctx.scratch, "c20_%03d.json" % (k // size))
        with open(p, "w") as f:
            json.dump({"cases": cases[k:k + size], "done": [], "sessions": []}, f, separators=(",", ":"))
        paths.append(p)
    vs, stats = pipeline.validate(paths, jvms=ctx.jvms, workers=ctx.workers, scratch=ctx.scratch, module="TraceC20")
    ctx.add_tlc(stats)
    byid = {c["id"]: c for c in cases}
    spec_errors = [v for v in vs if v["st"] == "spec-error"]
    if spec_errors:
        raise tlc.MachineryError("%d TLC evaluation errors in TraceC20, e.g. %s" % (len(spec_errors), spec_errors[0]["why"]))
    for v in vs:
        if v["st"] == "mismatch":
            c = byid[v["id"]]
            op = c["steps"][v["at"] - 1]["op"] if c["kind"] == "hist" and v["at"] else {}
            ctx.report("C20." + v["why"], {"why": v["why"], "op": op.get("op", c["kind"])},
                       {"kind": c["kind"], "case": c if c["kind"] in ("hex", "hexlong") else {"ops": [s["op"] for s in c["steps"]], "failing_step": c["steps"][v["at"] - 1] if v["at"] else None}, "verdict": v})
    ctx.cov["evaluations"] += len(vs)
    ctx.cov["traces_validated_against_impl"] += len(vs)
    ctx.cov["distinct_nontrivial"] = nt
