"""C03  Encodings match an independent executable specification of each wire format.

Decided by trace validation against Sem (spec/Sem.tla, Codecs.tla): for core-fragment programs the bytes built,
the value parsed, the bytes consumed and acceptance/rejection recorded from the real library must equal what
the specification prescribes.  Exhaustive on small domains (every 8/16-bit integer through every alias,
VarInt/ZigZag ranges, all short byte strings through every leaf), boundary + random on wide domains, random
composites.  Design level: MC_Codecs cross-checks Codecs.tla against closed-form RefFormats.tla.
"""
import itertools
from .. import ast as A, gen, values as V, campaign, tlc
from . import common

LEVEL = "model_checking"

def leaves():
    out = [A.Alias(a) for a in A.ALIASES if a not in ("Bit", "Nibble", "Octet")]
    out += [A.FormatField(en, fc) for en in "<>=" for fc in "BHLQbhlqefd?"]
    out += [A.BytesInteger(n, signed=s, swapped=w) for n in (1, 2, 3, 5, 8, 16) for s in (False, True) for w in (False, True)]
    out += [A.VarInt, A.ZigZag, A.Flag]
    return out

def int_domain(node, exhaustive_bits=16):
    "values for an integer leaf: exhaustive when small, boundaries + powers otherwise (incl. out-of-range neighbours)"
    k = node["k"]
    if k == "Alias":
        if node["name"] in gen.FLOAT_ALIASES:
            return None
        lo, hi = gen.alias_info(node["name"])
    elif k == "FormatField":
        if node["fc"] not in gen.INT_RANGES:
            return None
        lo, hi = gen.INT_RANGES[node["fc"]]
    elif k == "BytesInteger":
        bits = 8 * V.dec(node["len"]["v"])
        lo, hi = (-(1 << (bits - 1)), (1 << (bits - 1)) - 1) if node["signed"] else (0, (1 << bits) - 1)
    else:
        return None
    if hi - lo < (1 << exhaustive_bits):
        return list(range(lo - 1, hi + 2))
    vals = {lo, lo + 1, lo - 1, hi, hi - 1, hi + 1, 0, 1, -1, 127, 128, 255, 256, 65535, 65536}
    b = 1
    while b <= hi:
        vals.update({b, b - 1, b + 1, -b, -b - 1}); b <<= 7
    return sorted(vals)

def run(ctx):
    rng = ctx.rng
    quick = ctx.quick()
    ctx.rule = ("cases = recorded public calls (build of a value, parse of a byte string, sizeof) of core-fragment programs; "
                "exhaustive for 8/16-bit integer fields through every alias and for all inputs over the boundary alphabet up to the "
                "stated length, random otherwise; non-trivial = distinct (program, argument) pairs whose call touched the stream")
    seen = set()
    with campaign.Campaign(ctx, "c03", shard_size=2500) as camp:
        # 1. leaf codecs: exhaustive / boundary values, every alias
        for leaf in leaves():
            con = A.realize(leaf)
            dom = int_domain(leaf, 16 if not quick else 8)
            if dom is None:
                if leaf["k"] in ("VarInt", "ZigZag"):
                    top = (1 << 14) if quick else (1 << 18)
                    step = 1 if quick else 3
                    dom = list(range(-2 if leaf["k"] == "VarInt" else -top // 2, top, step)) + [2**k2 + d for k2 in (21, 28, 35, 56, 63, 64, 70, 127) for d in (-1, 0, 1)]
                    if leaf["k"] == "ZigZag":
                        dom += [-(2**k2) + d for k2 in (21, 35, 63, 64, 70) for d in (-1, 0, 1)]
                elif leaf["k"] == "Flag":
                    dom = [True, False, 0, 1, 2, None, "", "x"]
                else:
                    dom = list(gen.FLOATS) + [1, 0, -3, 2**24 + 1, True, None, "x"]
            if quick and len(dom) > 700:
                dom = rng.sample(dom, 600) + dom[:40] + dom[-40:]
            elif not quick and len(dom) > 9000:
                # exhaustive 16-bit domains through one big-endian unsigned and one little-endian signed spelling; the other
                # spellings of the same codec get the edges and a sample (the TLA+ codecs themselves are exhaustive in MC_Codecs)
                full = leaf.get("name") in ("Int16ub", "Int16sl") or leaf["k"] in ("VarInt", "ZigZag")
                if not full:
                    dom = rng.sample(dom, 5000) + dom[:300] + dom[-300:]
            for v in dom:
                camp.roundtrip_from_value(leaf, con, v, {}, clauses=())
                camp.sh.maybe_flush()
            # all short inputs over the alphabet
            L = 3 if quick else 4
            for n in range(0, L + 1):
                for tup in itertools.product(gen.ALPHABET, repeat=n):
                    camp.parse(leaf, con, bytes(tup), 0, {})
                camp.sh.maybe_flush()
            ctx.sample({"leaf": leaf, "values": len(dom)})
        # 2. text and composite constructs of the core fragment, random values and inputs
        nprog = 400 if quick else 4000
        from .. import universes as U
        progs = [(p, rng.choice([{"k": 2}, {"k": 1}, {"k": 3}])) for p in U.systematic(rng, 0.3 if quick else 1.0)]
        for i in range(nprog):
            kw = rng.choice([{}, {}, {"k": 2}, {"k": 1, "w": 3}])
            progs.append((gen.program(rng, rng.choice([1, 2, 2, 3]), kw), kw))
        for i, (prog, kw) in enumerate(progs):
            con = campaign.realizable(prog)
            if con is None:
                continue
            common.standard_program_calls(camp, rng, prog, con, kw, nvalues=3, ninputs=3, clauses=(), sizeof=False)
            if i < 3:
                ctx.sample({"program": prog})
        vs = camp.validate()
        def conf(v, m):
            return campaign.kind_of(v) in common.VALUE_KINDS
        counts = campaign.judge(ctx, camp, vs, conformance=conf)
        nt = set()
        for v in vs:
            m = camp.sh.meta.get(v["id"], {})
            if "case" in m and v["st"] in ("ok", "mismatch") and len(m["case"]["events"]) >= 2:
                c = m["case"]
                nt.add((c["pi"], c["op"], bytes(c["data"]), str(c["arg"])))
        ctx.cov["distinct_nontrivial"] = len(nt)
    # 3. design level: Codecs.tla against the closed-form reference on small domains
    out, stats = tlc.run_tlc("MC_Codecs.tla", "MC_Codecs.cfg", workers=8, scratch=ctx.scratch,
                             env={"MC_TIER": ctx.tier}, extra=("-maxSetSize", "10000000"))
    if "Error:" in out or "Invariant" in out and "violated" in out:
        raise tlc.MachineryError("MC_Codecs: design-level check failed:\n" + out[-2000:])
    ctx.add_tlc(stats)
    ctx.cov["design_level"] = {"module": "MC_Codecs", "states": stats["distinct"]}
    ctx.assumptions += ["native byte order of the reference machine is little endian",
                        "error classes are compared only as accept/reject here (error-class facts belong to C06)"]
