"""C05  sizeof is exact when it answers and fails only with SizeofError.

Sessions sizeof(kw); build_stream(v) at an offset; parse_stream(bytes + trailing data) at an offset are recorded; TLC evaluates
C05Total (integer >= 0 or SizeofError, in particular with a referenced key absent) and C05Exact (measured advance = n)
on the recorded results, and validates the recorded sizeof behaviour against Sem.
"""
from .. import ast as A, gen, values as V, campaign, tlc, speccode
from . import common

LEVEL = "model_checking"
CLAUSES = ("C05.total", "C05.exact")

def run(ctx):
    rng = ctx.rng
    quick = ctx.quick()
    ctx.rule = ("a case is sizeof(**kw) on a random program whose parameters reference siblings, parents and keywords, with the keys "
                "present and absent, paired with builds of domain values and parses of the built bytes followed by trailing data, at "
                "non-zero stream offsets; non-trivial = sizeof answered and a build or parse succeeded, or a key was missing")
    nprog = 900 if quick else 14000
    from .. import universes as U
    progs = [(p, rng.choice([{"k": 2}, {"k": 1}, {"k": 3}])) for p in U.systematic(rng, 0.4 if quick else 1.0, U.lookahead_wrappers() + U.lazy_wrappers())]
    for i in range(nprog):
        kw = rng.choice([{}, {"k": 2}, {"k": 1, "w": 3}, {"k": 0}, {"k": 3, "w": 1}])
        progs.append((gen.program(rng, rng.choice([1, 2, 2, 3]), kw or {"k": 1, "w": 1}, greedy_ok=rng.random() < 0.3), kw))
    # byte-level islands of context-dependent size inside bit-level regions (the size computers of the streaming wrappers)
    K = A.T("_params", "k")
    for p in (A.Bitwise(A.Bytewise(A.Bytes(K))), A.BitStruct(A.Renamed("a", A.Alias("Nibble")), A.Renamed("b", A.Bytewise(A.Array(K, A.Alias("Int16ub")))), A.Padding(4)),
              A.Bitwise(A.Struct(A.Renamed("n", A.Alias("Octet")), A.Renamed("d", A.Bytewise(A.Bytes(A.T("n")))))), A.Bytewise(A.Bitwise(A.Array(K, A.Alias("Octet")))) if False else A.Bitwise(A.Array(K, A.Alias("Nibble")))):
        for kk in (0, 1, 2, 4):
            progs.insert(0, (p, {"k": kk}))
    # transform wrappers of size zero: they consume nothing, whatever follows
    for p in (A.Bitwise(A.Array(0, A.Alias("Bit"))), A.ByteSwapped(A.Bytes(0)), A.BitsSwapped(A.Array(0, A.Alias("Byte"))), A.BitStruct(A.Padding(0)),
              A.Struct(A.Renamed("f", A.BitStruct(A.Renamed("v", A.Computed(A.C(3))))), A.Renamed("x", A.Alias("Byte")))):
        progs.insert(0, (p, {}))
    # a constant's size is the size of the member that carries it, not the length of the literal
    for sub in (A.Padded(4, A.Bytes(2)), A.NullTerminated(A.GreedyBytes), A.Prefixed(A.Alias("Byte"), A.GreedyBytes), A.Aligned(4, A.Bytes(2)), A.FixedSized(4, A.NullStripped(A.GreedyBytes)),
                A.Bytes(2), A.Padded(K, A.Bytes(2)), A.FixedSized(3, A.GreedyBytes), A.Prefixed(A.Alias("Byte"), A.Bytes(2)), A.PascalString(A.Alias("Byte"), "ascii") if False else A.Bytes(K)):
        c = A.Const(b"MZ", sub)
        for p in (c, A.Struct(A.Renamed("sig", c), A.Renamed("x", A.Alias("Byte"))), A.Array(2, c)):
            progs.insert(0, (p, {"k": rng.choice([2, 3, 4])}))
    # a keyword that happens to be called like a member of a nested scope is not that member
    for p, kws in ((A.FocusedSeq("x", A.Renamed("k", A.Alias("Byte")), A.Renamed("x", A.Bytes(A.T("k")))), ({"k": 2}, {"k": 0})),
                   (A.PrefixedArray(A.Alias("Byte"), A.Alias("Byte")), ({"count": 3}, {"count": 0}, {"items": 1})),
                   (A.PrefixedArray(A.Alias("Byte"), A.Alias("Int16ub")), ({"count": 2},)),
                   (A.Struct(A.Renamed("n", A.Alias("Byte")), A.Renamed("d", A.FocusedSeq("x", A.Renamed("x", A.Bytes(A.T("_", "n")))))), ({"n": 5}, {"n": 0})),
                   (A.FocusedSeq("x", A.Renamed("n", A.Rebuild(A.Alias("Byte"), A.Func("len", A.T("x")))), A.Renamed("x", A.Bytes(A.T("n")))), ({"n": 5}, {"n": 1})),
                   (A.Struct(A.Renamed("h", A.Alias("Byte")), A.Renamed("f", A.FocusedSeq("x", A.Renamed("k", A.Alias("Byte")), A.Renamed("x", A.Array(A.T("k"), A.Alias("Byte")))))), ({"k": 2},)),
                   (A.Struct(A.Renamed("k", A.Alias("Byte")), A.Renamed("s", A.Struct(A.Renamed("x", A.Bytes(A.T("k")))))), ({"k": 2},)),
                   (A.Sequence(A.Renamed("k", A.Alias("Byte")), A.Bytes(A.T("k"))), ({"k": 2},)),
                   (A.Struct(A.Renamed("n", A.Alias("Byte")), A.Renamed("body", A.Struct(A.Renamed("data", A.Bytes(A.T("_root", "n")))))), ({"n": 5}, {"n": 0})),
                   (A.Struct(A.Renamed("k", A.Alias("Byte")), A.Renamed("a", A.Array(2, A.Struct(A.Renamed("d", A.Bytes(A.T("_root", "k"))))))), ({"k": 2},)),
                   (A.Struct(A.Renamed("h", A.Alias("Byte")), A.Renamed("s", A.Struct(A.Renamed("d", A.Bytes(A.T("_root", "_params", "k")))))), ({"k": 2}, {"k": 0})),
                   # members that measure by the stream position inside a bit-level region whose size depends on a keyword (the streaming wrapper)
                   (A.Bitwise(A.Struct(A.Renamed("a", A.Padded(A.Bin("*", K, A.C(8)), A.BitsInteger(8))), A.Renamed("b", A.BitsInteger(8)))), ({"k": 2}, {"k": 3}, {"k": 1})),
                   (A.Bitwise(A.Struct(A.Renamed("x", A.BitsInteger(A.Bin("*", K, A.C(4)))), A.Renamed("y", A.Aligned(16, A.Alias("Octet"))))), ({"k": 2}, {"k": 4})),
                   (A.Struct(A.Renamed("h", A.Alias("Byte")), A.Renamed("r", A.BitsSwapped(A.Struct(A.Renamed("p", A.Padded(K, A.Alias("Byte"))), A.Renamed("q", A.Aligned(2, A.Alias("Byte"))))))), ({"k": 2}, {"k": 3}))):
        for kw in kws:
            progs.insert(0, (p, kw))
    fixed = {}
    for e in common.corpus(ctx):
        progs.insert(0, (e["prog"], e.get("kw", {})))
        fixed[common.pkey(e["prog"])] = e.get("values", [])
    with campaign.Campaign(ctx, "c05", shard_size=900) as camp:
        for i, (prog, kw) in enumerate(progs):
            con = campaign.realizable(prog)
            if con is None:
                continue
            comp = None
            if i % 3 == 0 and not any(x in str(prog) for x in ("Index", "_index", "Lazy", "RestreamData")):
                try:
                    comp = con.compile()            # the compiled instance reports the same sizeof: it must advance by it too
                except Exception:
                    comp = None
            for k2 in ([kw] + ([{}] if kw else []) + ([{"k": kw["k"]}] if "w" in kw else [])):
                iz, z = camp.sizeof(prog, con, k2)
                camp.sh.session("C05.total", [iz])
                if not z["res"]["ok"] or k2 != kw:
                    continue
                explicit = list(fixed.get(common.pkey(prog), []))
                for _ in range(3 + len(explicit)):
                    try:
                        v = explicit.pop() if explicit else gen.build_value(rng, prog, kw)
                    except Exception:
                        continue
                    pre = rng.choice([b"", b"\xee", b"\xee\xee\xee"])
                    ib, b = camp.build(prog, con, v, pre, kw)
                    camp.sh.session("C05.exact", [iz, ib])
                    if b["res"]["ok"]:
                        data = bytes(b["res"]["v"]["b"]) + gen.rbytes(rng, rng.choice([0, 1, 3, 5]))
                        st = rng.choice([0, 1, 2])
                        ip, p = camp.parse(prog, con, b"\xee" * st + data, st, kw)
                        camp.sh.session("C05.exact", [iz, ip])
                        if comp is not None and p["res"]["ok"]:
                            oprog = {"k": "Opaque", "desc": "compiled"}
                            ic, c = camp.parse(oprog, comp, b"\xee" * st + data, st, kw)
                            camp.sh.session("C05.exact", [iz, ic])
                            icb, cb = camp.build(oprog, comp, v, pre, kw)
                            camp.sh.session("C05.exact", [iz, icb])
            camp.sh.maybe_flush()
            if i < 3:
                ctx.sample({"program": prog, "kw": kw})
        # spec -> code: sizeof against the builds and parses of the sessions TLC explores on the model's universe (design level:
        # theorems Z-total / Z-exact of MC_CAM; negative control: the known hole of the sizing wrappers over StopIf)
        speccode.negative_control(ctx)
        if not quick:
            speccode.explore(ctx, focus="all", emit=False)      # the whole thorough universe, design level only
        uprogs, ukw, sessions, _ = speccode.explore(ctx, focus="all", part=speccode.part_of(ctx, 24 if quick else 32))
        def on(camp, prog, con, s, idx):
            if not idx["build"]:
                return
            iz, z = camp.sizeof(prog, con, ukw)
            camp.sh.session("C05.total", [iz])
            camp.sh.session("C05.exact", [iz, idx["build"]])
            b = idx["calls"]["build"]
            if b["res"]["ok"]:
                ip, p = camp.parse(prog, con, b"\xee" + bytes(b["res"]["v"]["b"]) + b"\xff\x00", 1, ukw)
                camp.sh.session("C05.exact", [iz, ip])
        speccode.drive(camp, uprogs, ukw, sessions, on)
        vs = camp.validate()
        def conf(v, m):
            # the recorded sizeof behaviour must be the specified one (value or failure)
            return m["case"]["op"] == "sizeof" and campaign.kind_of(v) in common.VALUE_KINDS
        campaign.judge(ctx, camp, vs, conformance=conf, clauses=CLAUSES)
        ctx.cov["distinct_nontrivial"] = sum(1 for v in vs if v.get("why") in CLAUSES and v["st"] in ("ok", "fail") and
                                             (v["why"] == "C05.exact" or not camp.sh.meta[camp.sh.meta[v["id"]]["calls"][0]]["case"]["res"]["ok"]))
