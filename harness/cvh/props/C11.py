"""C11  Context expressions mean what their Python spelling means, and print as it.

Design level (TLC alone, MC_C11): for all expression trees to the depth bound over the full operator table, Reparse(Render(e)) -- Python's precedence rules in TLA+ --
denotes the same function as e in every small environment; with the rendering rule of the pinned snapshot TLC must find a counter-example (negative control).
Conformance (TLC, TraceExpr.tla): the same trees built through the real overloads (reflected operands included): repr text, value of expr(env) against Eval, and
Python's own eval(repr(expr)) against expr(env).
"""
import itertools, json, os
from fractions import Fraction
from .. import ast as A, values as V, tlc, pipeline
from . import common

LEVEL = "model_checking"
BINOPS = ["+", "-", "*", "/", "//", "%", "**", "^", "<<", ">>", "&", "|", "<", "<=", ">", ">=", "==", "!="]
UNIOPS = ["-", "+", "not"]

def leaves():
    return [A.T("a"), {"x": "item", "o": A.This, "n": "b", "attr": False}, A.T("_", "c")]
def consts():
    return [A.C(2), A.C(-1), A.C(3), A.C(0), A.C(True), A.C("ab"), A.C(b"z")]

def with_rp(e):
    "add Python's own repr of constants / indices"
    e = dict(e)
    if e["x"] == "const":
        e["rp"] = repr(V.dec(e["v"]))
    for k in ("o", "l", "r", "a"):
        if k in e and isinstance(e[k], dict):
            e[k] = with_rp(e[k])
    if e["x"] == "idx":
        e["rp"] = repr(e["i"])
    e.pop("attr", None)
    return e

MIRROR = {"<": ">", "<=": ">=", ">": "<", ">=": "<=", "==": "==", "!=": "!="}
def canon(e):
    """Python has no reflected comparison methods: `2 >= this.b` calls this.b.__le__(2), so the tree that the
    overloads build for a constant on the left of a comparison is the mirrored one"""
    e = dict(e)
    for k in ("o", "l", "r", "a"):
        if k in e and isinstance(e[k], dict):
            e[k] = canon(e[k])
    if e["x"] == "bin" and e["op"] in MIRROR and e["l"]["x"] == "const" and e["r"]["x"] != "const":
        e["l"], e["r"], e["op"] = e["r"], e["l"], MIRROR[e["op"]]
    return e

def enc_result(fn):
    try:
        v = fn()
    except BaseException as ex:
        if isinstance(ex, (KeyboardInterrupt, SystemExit)):
            raise
        return {"ok": False, "v": V.VNone(), "err": type(ex).__name__}
    if isinstance(v, float):
        if v != v or v in (float("inf"), float("-inf")):
            return {"ok": True, "v": {"t": "opaque", "r": "float"}, "err": ""}
        f = Fraction(v).limit_denominator(100000)
        return {"ok": True, "v": {"t": "rat", "n": f.numerator, "d": f.denominator}, "err": ""}
    if isinstance(v, complex):
        return {"ok": True, "v": {"t": "opaque", "r": "complex"}, "err": ""}
    if isinstance(v, int) and not isinstance(v, bool) and abs(v) >= 2 ** 30:
        return {"ok": True, "v": {"t": "opaque", "r": "bigint"}, "err": ""}
    return {"ok": True, "v": V.enc(v), "err": ""}

def trees(rng, quick):
    L, Cs = leaves(), consts()
    d1 = []
    for op in BINOPS:
        for l in L + Cs:
            for r in L + Cs:
                if l["x"] == "const" and r["x"] == "const":
                    continue
                if op == "%" and l["x"] == "const" and l["v"]["t"] in ("str", "bytes"):
                    continue        # printf-style formatting of the constant itself: never reaches the placeholder's __rmod__
                d1.append(A.Bin(op, l, r))
    for op in UNIOPS:
        d1 += [A.Uni(op, l) for l in L]
    d1 += [A.Func(f, x) for f in ("abs", "len", "sum", "min", "max") for x in (A.T("a"), A.T("lst"), A.T("s"))]
    out = list(d1)
    # depth 2: unary inside binary on either side, binary inside unary, reflected constants, nested binaries
    inner = [t for t in d1 if t["x"] in ("uni",)] + rng.sample([t for t in d1 if t["x"] == "bin"], 60 if quick else 400)
    for t in inner:
        for op in (BINOPS if not quick else rng.sample(BINOPS, 9)):
            other = rng.choice(L + Cs[:5])
            out.append(A.Bin(op, t, other))
            out.append(A.Bin(op, other, t))
        for u in UNIOPS:
            out.append(A.Uni(u, t))
        out.append(A.Func("abs", t))
    if not quick:
        for t1 in rng.sample(inner, 200):
            for t2 in rng.sample(inner, 6):
                out.append(A.Bin(rng.choice(BINOPS), t1, t2))
    # obj_ rooted expressions
    for op in BINOPS:
        out.append(A.Bin(op, A.Obj, A.C(2))); out.append(A.Bin(op, A.C(3), A.Obj)); out.append(A.Bin(op, A.Uni("-", A.Obj), A.C(2)))
    out += [A.Uni(u, A.Obj) for u in UNIOPS] + [A.Idx(A.T("lst"), -1), A.Idx(A.T("lst"), 5), A.Bin("+", A.Idx(A.T("lst"), 0), A.C(1)), A.Idx(A.Lst, -1)]
    return out

def run(ctx):
    import construct as cs
    rng = ctx.rng
    quick = ctx.quick()
    ctx.rule = ("a case is one expression tree (every operator, reflected constants of type int/bool/str/bytes, unary under binary and binary under unary, len_/sum_/min_/max_/abs_, "
                "item and attribute paths) evaluated in all small-integer environments; non-trivial = depth >= 2 with a unary operator under a binary one, or a reflected operand")
    # ---- design level
    st = common.design_level(ctx, "MC_C11")
    out, stats = tlc.run_tlc("MC_C11.tla", "MC_C11.cfg", workers=16, scratch=ctx.scratch, env={"MC_TIER": "quick", "MC_CONTROL": "1"})
    if "Invariant Faithful is violated" not in out:
        raise tlc.MachineryError("MC_C11 negative control: TLC did not find the precedence counter-example under the old rendering rule")
    ctx.cov["design_level"]["MC_C11_control"] = "counter-example found under the unparenthesised rule, as required"
    # ---- conformance
    envvals = [-2, 0, 1, 3] if quick else [-3, -2, -1, 0, 1, 2, 3]
    envs = []
    for a in envvals:
        for b in (-1, 2):
            for c in (0, 3):
                root = cs.Container(a=a, b=b, lst=[3, 1, 2], s="xy")
                root["_"] = cs.Container(c=c)
                rj = V.VDict([("a", V.VInt(a)), ("b", V.VInt(b)), ("lst", V.VList([V.VInt(3), V.VInt(1), V.VInt(2)])), ("s", V.VStr("xy")), ("_", V.VDict([("c", V.VInt(c))]))])
                envs.append((root, rj))
    cases = []
    nt = 0
    for i, e in enumerate(trees(rng, quick)):
        try:
            expr = A.realize_expr(e)
        except Exception as ex:
            continue
        objrooted = '"x": "obj"' in json.dumps(e)
        lstrooted = e["x"] == "idx" and e["o"]["x"] == "list"
        runs = []
        for ei, (root, rj) in (list(enumerate(envs, 1)) if not objrooted else [(len(envs) + 1 + k, (v, V.VInt(v))) for k, v in enumerate(envvals)]):
            g = {"this": root, "obj_": root, "list_": [1, 2, 3], "len_": len, "sum_": sum, "min_": min, "max_": max, "abs_": abs}
            if lstrooted:
                val = enc_result(lambda: expr(root, [1, 2, 3]))
            else:
                val = enc_result(lambda: expr(root))
            r = repr(expr)
            ev = enc_result(lambda: eval(r, dict(g)))
            runs.append({"ei": ei, "val": val, "ev": ev})
        cases.append({"id": "e%d" % i, "e": with_rp(canon(e)), "repr": repr(expr), "runs": runs})
        s = json.dumps(e)
        if ('"uni"' in s and '"bin"' in s) or (e["x"] == "bin" and e["l"]["x"] == "const"):
            nt += 1
    ctx.sample({"expr": cases[7]["repr"], "runs": len(cases[7]["runs"])})
    ctx.sample({"expr": cases[-20]["repr"]})
    paths = []
    os.makedirs(ctx.scratch, exist_ok=True)
    size = 400
    for k in range(0, len(cases), size):
        p = os.path.join(ctx.scratch, "c11_%03d.json" % (k // size))
        with open(p, "w") as f:
            lst = V.VList([V.VInt(1), V.VInt(2), V.VInt(3)])
            envtab = [{"root": rj, "lst": lst} for _, rj in envs] + [{"root": V.VInt(v), "lst": lst} for v in envvals]
            json.dump({"envs": envtab, "cases": cases[k:k + size], "done": [], "sessions": []}, f, separators=(",", ":"))
        paths.append(p)
    vs, stats = pipeline.validate(paths, jvms=ctx.jvms, workers=ctx.workers, scratch=ctx.scratch, module="TraceExpr")
    ctx.add_tlc(stats)
    byid = {c["id"]: c for c in cases}
    spec_errors = [v for v in vs if v["st"] == "spec-error"]
    if spec_errors:
        raise tlc.MachineryError("%d TLC evaluation errors in TraceExpr, e.g. %s on %s" % (len(spec_errors), spec_errors[0]["why"], byid[spec_errors[0]["id"]]["repr"]))
    for v in vs:
        if v["st"] == "mismatch":
            c = byid[v["id"]]
            run_ = dict(c["runs"][v["at"] - 1]) if v["at"] else None
            ctx.report("C11." + v["why"], {"why": v["why"], "top": c["e"]["x"] + ":" + str(c["e"].get("op", c["e"].get("f", "")))},
                       {"kind": "expr", "e": c["e"], "repr": c["repr"], "run": run_, "verdict": v})
    ctx.cov["evaluations"] += len(vs)
    ctx.cov["traces_validated_against_impl"] += len(vs)
    ctx.cov["distinct_nontrivial"] = nt
    ctx.cov["environments_per_expression"] = len(envs)
