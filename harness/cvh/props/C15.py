"""C15  Byte transforms invert exactly and match their definition.

Parameter grids (keys: every single byte, byte strings incl. all-zero of length 1..N with the 64/65 boundary of the zero-key shortcut; rotation amounts -64..64 x group
sizes 1..8, exhaustively; ByteSwapped / BitsSwapped over constructs of size 1..16; zlib / gzip / bzip2 / lzma) x data of bounded length incl. lengths that are not
multiples of the group.  Judged by TLC trace validation against independent definitions (spec/Codecs.tla: XorData = key cycled, RotLData = rotation of the
group's bit string, byte / bit reversal); compression codecs are an uninterpreted inverse pair whose graph comes from the standard library called directly.
"""
import bz2, gzip, itertools, lzma, zlib
from .. import ast as A, gen, values as V, campaign
from . import common

LEVEL = "model_checking"

CODECS = {"zlib": (zlib.compress, zlib.decompress), "gzip": (gzip.compress, gzip.decompress),
          "bzip2": (bz2.compress, bz2.decompress), "lzma": (lzma.compress, lzma.decompress)}

def fill_codec_graph(node, codec, inner_bytes=None, outer_bytes=None):
    enc, dec = CODECS[codec]
    if inner_bytes is not None:
        k = V.VBytes(inner_bytes)
        if k not in node["ek"]:
            node["ek"].append(k); node["ev"].append(V.VBytes(enc(inner_bytes)))
    if outer_bytes is not None:
        k = V.VBytes(outer_bytes)
        if k not in node["dk"]:
            try:
                v = V.VBytes(dec(outer_bytes))
            except Exception:
                v = V.VNone()
            node["dk"].append(k); node["dv"].append(v)

def run(ctx):
    rng = ctx.rng
    quick = ctx.quick()
    ctx.rule = ("a case is a build of data through a transforming wrapper, the parse of the built bytes and of arbitrary bytes, for one point of the parameter grid; "
                "non-trivial = the transform is not the identity on the data")
    nt = 0
    with campaign.Campaign(ctx, "c15", shard_size=1500) as camp:
        def exercise(prog, datas, kw=None, pre_offsets=(0,)):
            nonlocal nt
            con = campaign.realizable(prog)
            if con is None:
                raise RuntimeError("cannot realize %r" % (prog,))
            for d in datas:
                ib, b = camp.build(prog, con, d, rng.choice([b"", b"\xee"]), kw or {})
                if b["res"]["ok"]:
                    out = bytes(b["res"]["v"]["b"])
                    st = rng.choice(pre_offsets)
                    camp.parse(prog, con, b"\xee" * st + out, st, kw or {})
                    if out != (d if isinstance(d, bytes) else b""):
                        nt += 1
                if isinstance(d, bytes):
                    camp.parse(prog, con, d, 0, kw or {})
            camp.sh.maybe_flush()
        # ---- XOR
        keys = list(range(256)) + [256, -1] + [bytes([k]) for k in (0, 1, 0x80, 0xff)]
        maxlen = 4 if quick else 80
        for L in list(range(2, maxlen + 1)) + [63, 64, 65, 66, 80]:
            keys += [bytes(L), bytes(L - 1) + b"\x01", b"\x01" + bytes(L - 1), gen.rbytes(rng, L)]
        keys += [b"", "str", None, A.T("_params", "k")]
        if quick:
            keys = rng.sample(keys[:258], 70) + keys[258:]
        for key in keys:
            prog = A.ProcessXor(key, A.GreedyBytes)
            datas = [b"", b"\x00", b"\xff\x00\x55", gen.rbytes(rng, 7)] + ([gen.rbytes(rng, 70), bytes(range(66))] if isinstance(key, bytes) and len(key) > 4 else [])
            exercise(prog, datas, {"k": 0x5a}, (0, 2))
        exercise(A.Struct(A.Renamed("n", A.Alias("Byte")), A.Renamed("x", A.Prefixed(A.Alias("Byte"), A.ProcessXor(A.T("n"), A.Struct(A.Renamed("t", A.Tell), A.Renamed("d", A.GreedyBytes)))))),
                 [{"n": 0x0f, "x": {"d": b"abc"}}, {"n": 0, "x": {"d": b""}}])
        # ---- rotation
        amounts = range(-64, 65)
        groups = range(1, 9)
        grid = [(a, g) for a in amounts for g in groups]
        if quick:
            grid = rng.sample(grid, 260) + [(a, g) for a in (0, 1, 7, 8, 9, 16, 24, -1, -8, -16, 63, 64, -64) for g in (1, 2, 3, 5, 8) if rng.random() < 0.5]
        for a, g in grid:
            prog = A.ProcessRotateLeft(a, g, A.GreedyBytes)
            datas = [b"", bytes(range(1, g + 1)), gen.rbytes(rng, g), gen.rbytes(rng, 2 * g), gen.rbytes(rng, g + 1), bytes([0x80] + [0] * (g - 1))]
            exercise(prog, datas)
        for g in (0, -1):
            exercise(A.ProcessRotateLeft(1, g, A.GreedyBytes), [b"ab"])
        # ---- transforms over content whose bytes are not its value (framing, padding, another transform below): what is transformed is what the content wrote
        inners = [(A.Prefixed(A.Alias("Byte"), A.GreedyBytes), [b"abc", b"", b"\x80\x01"]), (A.NullTerminated(A.GreedyBytes), [b"abc", b""]), (A.Padded(8, A.Bytes(3)), [b"abc"]),
                  (A.ProcessXor(0x5a, A.GreedyBytes), [b"abc", b"\x5a\x00"]), (A.ProcessXor(b"\x01\x80\xff", A.GreedyBytes), [b"abcde"]), (A.ByteSwapped(A.Bytes(4)), [b"abcd"]),
                  (A.ProcessRotateLeft(3, 2, A.GreedyBytes), [b"abcd", b"abc"]), (A.Struct(A.Renamed("n", A.Alias("Int16ub")), A.Renamed("s", A.CString("utf8"))), [{"n": 258, "s": "xy"}]),
                  (A.Aligned(4, A.Bytes(3)), [b"abc"]), (A.PascalString(A.Alias("Byte"), "utf8"), ["h\u00e9"]), (A.Alias("Int32ul"), [0x01020304])]
        outers = [lambda x: A.ProcessRotateLeft(-9, 1, x), lambda x: A.ProcessRotateLeft(8, 3, x), lambda x: A.ProcessRotateLeft(5, 4, x), lambda x: A.ProcessXor(0x0f, x),
                  lambda x: A.ProcessXor(b"\x01\x02", x), lambda x: A.BitsSwapped(x) if x["k"] in ("Padded", "ByteSwapped", "Aligned", "Alias") else A.ProcessXor(0xff, x),
                  lambda x: A.ByteSwapped(x) if x["k"] in ("Padded", "ByteSwapped", "Aligned", "Alias") else A.ProcessRotateLeft(1, 1, x)]
        for (inner, vals), outer in itertools.product(inners, outers):
            exercise(outer(inner), vals, None, (0, 1))
            exercise(A.Struct(A.Renamed("h", A.Alias("Byte")), A.Renamed("x", A.Prefixed(A.Alias("Byte"), outer(inner))), A.Renamed("t", A.Alias("Byte"))), [{"h": 1, "x": v, "t": 2} for v in vals[:1]])
        # ---- byte / bit order swapping
        for size in range(1, 17):
            for mk in (A.ByteSwapped, A.BitsSwapped):
                exercise(mk(A.Bytes(size)), [gen.rbytes(rng, size), bytes(range(size)), gen.rbytes(rng, size + 1), gen.rbytes(rng, max(size - 1, 0))], None, (0, 1))
        for name in ("Int16ub", "Int24ub", "Int32sl", "Int64ul", "Float32b"):
            for mk in (A.ByteSwapped, A.BitsSwapped):
                exercise(mk(A.Alias(name)), [0, 1, 258, -2, 0x10203, 1.5])
        exercise(A.BitsSwapped(A.GreedyBytes), [b"", b"\x01\x80", gen.rbytes(rng, 5)])
        exercise(A.BitsSwapped(A.Struct(A.Renamed("n", A.Alias("Byte")), A.Renamed("d", A.Bytes(A.T("n"))))), [{"n": 2, "d": b"\x01\x02"}, {"n": 0, "d": b""}])
        # ---- bit order swapped over content without a static size (the streaming wrapper): an attempt that runs out of data and is rolled
        #      back, or a member that ends inside a unit, leaves decoded bytes pending; what reads to the end gets them too
        for prog, datas in ((A.BitsSwapped(A.Sequence(A.GreedyRange(A.Alias("Int16ub")), A.GreedyBytes)), [b"\x0b", b"\x01\x02\x03", b"\x01\x02", b""]),
                            (A.BitsSwapped(A.Sequence(A.Optional(A.Alias("Int32ub")), A.GreedyBytes)), [b"\x0b", b"\x01\x02\x03", b"\x01\x02\x03\x04\x05"]),
                            (A.BitsSwapped(A.Bitwise(A.Struct(A.Renamed("a", A.Alias("Nibble")), A.Renamed("b", A.Alias("Nibble")), A.Renamed("c", A.Alias("Nibble")), A.Renamed("r", A.GreedyBytes)))), [b"\x12\x34", b"\x12\x34\x56\x78"]),
                            (A.BitsSwapped(A.Struct(A.Renamed("o", A.Optional(A.Const(b"\x80\x40"))), A.Renamed("r", A.GreedyBytes))), [b"\x01", b"\x01\x02\x03", b"\x01\x03"]),
                            (A.Prefixed(A.Alias("Byte"), A.BitsSwapped(A.Sequence(A.GreedyRange(A.Alias("Int16ub")), A.GreedyBytes))), [b"\x03\x01\x02\x03", b"\x01\x0b"])):
            con = campaign.realizable(prog)
            for d in datas:
                ip, pp = camp.parse(prog, con, d, 0, {})
                if pp["res"]["ok"]:
                    try:
                        camp.build(prog, con, V.dec(pp["res"]["v"]), b"", {}, arg=pp["res"]["v"])
                    except Exception:
                        pass
                nt += 1
            camp.sh.maybe_flush()
        # ---- compression codecs (uninterpreted pair; graph from the standard library)
        for codec in CODECS:
            for sub, vals in ((A.GreedyBytes, [b"", b"a", b"hello hello hello", gen.rbytes(rng, 40)]),
                              (A.Struct(A.Renamed("a", A.Alias("Int16ub")), A.Renamed("s", A.CString("utf8"))), [{"a": 1, "s": "xy"}, {"a": 65535, "s": ""}]),
                              (A.Prefixed(A.Alias("Byte"), A.GreedyBytes), [b"abc", b""])):
                node = A.Compressed(sub, codec)
                progs = [node, A.Prefixed(A.VarInt, node), A.Struct(A.Renamed("h", A.Alias("Byte")), A.Renamed("z", A.Prefixed(A.Alias("Int16ub"), node)))]
                subcon = A.realize(sub)
                for prog in progs:
                    con = A.realize(prog)
                    for v in vals:
                        try:
                            inner = subcon.build(v)
                        except Exception:
                            continue
                        fill_codec_graph(node, codec, inner_bytes=inner)
                        enc = CODECS[codec][0](inner)
                        fill_codec_graph(node, codec, outer_bytes=enc)
                        vv = v if prog is node or prog["k"] == "Prefixed" else {"h": 7, "z": v}
                        ib, b = camp.build(prog, con, vv, b"", {})
                        if b["res"]["ok"]:
                            out = bytes(b["res"]["v"]["b"])
                            camp.parse(prog, con, out, 0, {})
                            nt += 1
                    junk = gen.rbytes(rng, 6)
                    fill_codec_graph(node, codec, outer_bytes=junk)
                    if prog is node:
                        camp.parse(prog, con, junk, 0, {})
                camp.sh.maybe_flush()
        vs = camp.validate()
        campaign.judge(ctx, camp, vs, conformance=lambda v, m: campaign.kind_of(v) in common.VALUE_KINDS)
        ctx.cov["distinct_nontrivial"] = nt
    ctx.assumptions.append("zlib/gzip/bzip2/lzma are uninterpreted: only the composition (what is handed to and taken from the codec) is checked")
