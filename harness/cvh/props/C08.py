"""C08  Delimited regions confine their inner construct; offsets stay absolute.

Universe: nestings (depth <= 4) of Prefixed / FixedSized / NullTerminated (include, consume, require, multi-byte terms) /
NullStripped / OffsettedEnd / ProcessXor / Padded around greedy and non-greedy members whose own codecs are trivial (Byte,
Bytes, GreedyBytes, GreedyRange(Byte), Tell, RawCopy, Pointer), parsed with parse_stream at start offsets 0..3 over all region
lengths incl. 0 and over-long.  Decided by trace validation: every recorded position (enter/leave of every node, in the
coordinates of the outermost stream), every Tell / RawCopy offset and every inner value must be what Sem prescribes.
"""
from .. import ast as A, gen, values as V, campaign, universes as U, speccode
from . import common

LEVEL = "model_checking"
KINDS = {"in-pos", "out-pos", "out-value", "out-status", "result:result-pos", "result:result-value", "result:result-status"}

def run(ctx):
    rng = ctx.rng
    quick = ctx.quick()
    ctx.rule = ("a case is parse_stream of a delimiter nest at a start offset (or the build of a value parsed from it); inputs: random over "
                "the boundary alphabet plus terminator/pad bytes, canonical encodings and their mutations; non-trivial = at least two "
                "nested delimiters or a non-zero start offset")
    nprog = 1500 if quick else 20000
    nt = 0
    with campaign.Campaign(ctx, "c08", shard_size=1200) as camp:
        for i in range(nprog):
            depth = rng.choice([1, 2, 2, 3, 4])
            kw = {"k": rng.choice([0, 1, 2, 3])}
            prog = U.c08_program(rng, depth)
            con = campaign.realizable(prog)
            if con is None:
                continue
            comp = None
            if i % 3 == 0 and depth >= 2:
                try:
                    comp = con.compile()        # generated code cuts its regions with a helper of its own: same confinement, same absolute offsets
                except Exception:
                    comp = None
            for _ in range(6):
                data = bytes(rng.choice([0, 0, 1, 2, 3, 4, 0xff, 0x80, 5]) for _ in range(rng.randint(0, 9)))
                st = rng.choice([0, 0, 1, 2, 3])
                ip, p = camp.parse(prog, con, b"\xee" * st + data, st, kw, tag="nest")
                if comp is not None and p["res"]["ok"]:
                    ic, c = camp.parse({"k": "Opaque", "desc": "compiled"}, comp, b"\xee" * st + data, st, kw, tag="nest-compiled")
                    camp.sh.session("C04.equiv", [ip, ic])
                if depth >= 2 or st:
                    nt += 1
                if p["res"]["ok"] and rng.random() < 0.3:
                    try:
                        camp.build(prog, con, V.dec(p["res"]["v"]), rng.choice([b"", b"\xee\xee"]), kw, arg=p["res"]["v"])
                    except Exception:
                        pass
            camp.sh.maybe_flush()
            if i < 3:
                ctx.sample({"program": prog})
        # every input up to 4 bytes over {0, 1, 255} under pads whose head, tail and whole differ
        for pad in ([b"\x00\x01", b"\x01\x00\x00", b"\x00\x00\x00", b"\x00\x00", b"\xff"] if quick else
                    [b"\x00\x01", b"\x01\x00\x00", b"\x00\x00\x00", b"\x00\x00", b"\xff", b"\x00", b"\x01\x00", b"\x00\x01\x00", b"\x00\x01\x00\x01"]):
            for inner in (A.GreedyBytes, A.GreedyRange(A.Alias("Byte"))):
                prog = A.NullStripped(inner, pad=pad)
                con = campaign.realizable(prog)
                for n in range(0, 5 if quick else 6):
                    for t in __import__("itertools").product((0, 1, 255), repeat=n):
                        camp.parse(prog, con, bytes(t), 0, {}, tag="pad")
                        nt += 1
                camp.sh.maybe_flush()
        # spec -> code: every session TLC explores on the delimiter part of the model's universe
        progs, kw, sessions, _ = speccode.explore(ctx, focus="C08", part=speccode.part_of(ctx, 24 if quick else 24))
        nt += speccode.drive(camp, progs, kw, sessions)
        vs = camp.validate()
        campaign.judge(ctx, camp, vs, conformance=lambda v, m: campaign.kind_of(v) in KINDS and m["case"]["op"] == "parse", clauses=("C04.equiv",))
        ctx.cov["distinct_nontrivial"] = nt
