"""C19  KSY export describes the same byte layout the construct parses.

Translation validation: for every construct of the exportable fragment (generated from the grammar: integers, floats, bytes, strings, flags, enums, structs, arrays,
ranges, prefixed, padded, conditionals, bit structs, pointers) the document produced by the real export_ksy() -- through a stand-in for the absent ruamel.yaml that
writes JSON and refuses anything that is not plain data -- is interpreted by the KSY interpreter of spec/Ksy.tla (written from the Kaitai Struct user guide) on
canonical encodings, and compared by TLC (TraceKsy.tla) with the recorded, Sem-validated parse: identifiers in declaration order, extent and value of every member.
"""
import io, json, os, re, sys
from .. import ast as A, gen, values as V, campaign, tracer, tlc, pipeline
from . import common

LEVEL = "translation_validation"
# classes whose export is known to disagree with their parsing (see known_findings.json); first match names the culprit of a failing member
SUSPECTS = ["Array:bits", "If:bits", "Enum", "FlagsEnum", "Padded", "NullTerminated", "Prefixed:includelength", "IfThenElse", "PaddedString", "Bytes", "Const", "Padding", "RepeatUntil", "If"]
SHIM = os.path.join(os.path.dirname(os.path.dirname(os.path.dirname(os.path.abspath(__file__)))), "shim")

# ---------------------------------------------------------------- lexing of expression strings (repr of this-expressions)
TOK = re.compile(r"\s*(?:(this)|(obj_|_(?![A-Za-z0-9_]))|(len_|sum_|min_|max_|abs_)|(not\b)|(\d+)|(True|False)|([A-Za-z_][A-Za-z0-9_]*)|(\[\s*'([^']*)'\s*\])|(\*\*|//|<<|>>|<=|>=|==|!=|[-+*/%^&|<>])|(\()|(\)))")
def lex(s):
    toks, pos, prev = [], 0, None
    s = s.strip()
    while pos < len(s):
        m = TOK.match(s, pos)
        if not m or m.end() == pos:
            raise ValueError("cannot lex %r at %d" % (s, pos))
        pos = m.end()
        th, ob, fn, nt, num, boo, ident, sub, subname, op, lp, rp = m.groups()
        if th: toks.append({"t": "atom", "e": {"x": "this"}}); prev = "atom"
        elif ob: toks.append({"t": "atom", "e": {"x": "obj"}}); prev = "atom"
        elif fn: toks.append({"t": "func", "f": fn[:-1]}); prev = "func"
        elif nt: toks.append({"t": "uop", "s": "not"}); prev = "op"
        elif num: toks.append({"t": "atom", "e": {"x": "const", "v": V.VInt(int(num))}}); prev = "atom"
        elif boo: toks.append({"t": "atom", "e": {"x": "const", "v": V.VBool(boo == "True")}}); prev = "atom"
        elif ident: toks.append({"t": "atom", "e": {"x": "item", "o": {"x": "this"}, "n": ident}}); prev = "atom"
        elif sub:
            if toks and toks[-1]["t"] == "atom":
                toks[-1] = {"t": "atom", "e": {"x": "item", "o": toks[-1]["e"], "n": subname}}
            else:
                raise ValueError("subscript without operand in %r" % s)
        elif op:
            if op in "-+" and prev in (None, "op", "lp"):
                toks.append({"t": "uop", "s": op})
            else:
                toks.append({"t": "op", "s": op})
            prev = "op"
        elif lp: toks.append({"t": "lp"}); prev = "lp"
        elif rp: toks.append({"t": "rp"}); prev = "atom"
    return toks

def typed(x):
    "attribute value -> typed record for TLC"
    if isinstance(x, bool): return x
    if isinstance(x, int): return V.VInt(x)
    if x is None: return {"t": "null"}
    if isinstance(x, str):
        if re.fullmatch(r"[A-Za-z_][A-Za-z0-9_]*", x): return {"t": "name", "s": x}
        if re.fullmatch(r"-?\d+", x): return V.VInt(int(x))
        try:
            return {"t": "toks", "toks": lex(x)}
        except ValueError:
            return {"t": "unlexable", "s": x}
    return {"t": "other"}

def sanitize_attr(a):
    out = {}
    for k, v in a.items():
        if k == "type":
            if isinstance(v, str) and re.fullmatch(r"b\d+", v): out[k] = {"t": "bits", "n": int(v[1:])}
            elif isinstance(v, str): out[k] = {"t": "name", "s": v}
            else: out[k] = {"t": "null"}
        elif k in ("size", "repeat-expr"): out[k] = typed(v)
        elif k in ("if", "repeat-until"):
            t = typed(v)
            out[k] = t if t["t"] == "toks" else {"t": "toks", "toks": lex(str(v))} if isinstance(v, (str, int, bool)) else t
        elif k in ("id", "repeat", "encoding", "doc", "-construct-render"): out[k] = str(v)
        elif k == "contents": out[k] = list(v)
        elif k in ("terminator", "pad-right"): out[k] = int(v)
        elif k in ("include", "consume", "eos-error", "size-eos"): out[k] = bool(v)
        elif k == "pos": out[k] = typed(v)
        else: out[k] = str(v)
    if "encoding" in out:
        out["encoding"] = out["encoding"].replace("-", "_").lower()
    return out

def sanitize_doc(doc):
    types = {name: {"seq": [sanitize_attr(a) for a in t["seq"]]} for name, t in (doc.get("types") or {}).items()}
    types["-none-"] = {"seq": []}          # never an empty record
    return {"seq": [sanitize_attr(a) for a in doc["seq"]], "types": types, "enums": sorted((doc.get("enums") or {}).keys())}

# ---------------------------------------------------------------- exportable programs
def exportable_member(rng, depth, bit=False):
    if bit:
        r = rng.randrange(6)
        if r == 0: return A.Flag
        if r == 1: return A.Alias(rng.choice(["Bit", "Nibble", "Octet"]))
        if r == 2: return A.Padding(rng.choice([1, 2, 3]))
        if r == 3 and rng.random() < 0.5:
            isl = A.Bytewise(rng.choice([A.Flag, A.Alias("Int16ub"), A.Alias("Byte"), A.Struct(A.Renamed("x", A.Alias("Byte")), A.Renamed("f", A.Flag))]))
            # a byte-level island reached through a wrapper that asks its member for a primitive type
            return isl if rng.random() < 0.6 else A.Array(2, isl)
        if r == 4 and rng.random() < 0.5:
            # a repeated bit-level member (the element type is asked for as a primitive type)
            return A.Array(rng.choice([2, 3, 8]), rng.choice([A.Flag, A.BitsInteger(rng.choice([1, 3, 4]))]))
        return A.BitsInteger(rng.choice([1, 2, 3, 5, 7, 8, 12]))
    r = rng.randrange(30)
    if r < 6: return A.Alias(rng.choice(["Byte", "Int16ub", "Int16ul", "Int32sb", "Int32ul", "Int8sb", "Int64ub", "Int24ub", "Int24sl", "Int16un", "Int32sn", "Int64un", "Int24un"]))
    if r == 6: return A.Alias(rng.choice(["Float32b", "Float64l", "Float32l", "Float64b", "Float32n", "Float64n", "Single", "Double"]))
    if r == 7: return A.Bytes(rng.choice([0, 1, 3]))
    if r == 8: return A.Flag
    if r == 9: return A.VarInt
    if r == 10: return A.Enum(A.Alias(rng.choice(["Byte", "Int16ub"])), one=1, two=2)
    if r == 11: return A.FlagsEnum(A.Alias(rng.choice(["Byte", "Int16ub"])), a=1, b=2, c=0x80)
    if r == 12: return A.PaddedString(rng.choice([3, 5]), rng.choice(["ascii", "utf8"]))
    if r == 13: return A.PascalString(A.Alias(rng.choice(["Byte", "Int16ub"])), "utf8")
    if r == 14: return A.CString(rng.choice(["ascii", "utf8"]))
    if r == 15:
        # a constant is exported as the bytes its member writes for it (prefix, padding and terminator included)
        return rng.choice([A.Const(rng.choice([b"MZ", b"\x00\x01\x02"])), A.Const(b"ab", A.Prefixed(A.Alias("Byte"), A.GreedyBytes)),
                           A.Const(b"abc", A.FixedSized(5, A.GreedyBytes)), A.Const(b"MZ", A.Prefixed(A.Alias("Int16ub"), A.GreedyBytes))])
    if r == 16: return A.Const(7, A.Alias("Int16ub"))
    if r == 17: return A.Padding(rng.choice([1, 2]))
    if r == 18:
        if rng.random() < 0.5: return A.Padded(rng.choice([3, 4]), A.Alias("Byte"))
        # a padded slot around a repeated or fixed member (the slot is one substream, whatever is inside)
        return A.Padded(8, rng.choice([A.Array(3, A.Alias("Int16ub")), A.Array(2, A.Struct(A.Renamed("x", A.Alias("Byte")), A.Renamed("y", A.Alias("Int16ub")))), A.Bytes(3), A.Const(b"MZ")]))
    if r == 19: return A.Array(rng.choice([0, 1, 2, 3]), A.Alias(rng.choice(["Byte", "Int16ul"])))
    if r == 20: return A.Prefixed(A.Alias("Byte"), A.GreedyBytes, incl=rng.random() < 0.2)
    if r == 21: return A.PrefixedArray(A.Alias("Byte"), A.Alias(rng.choice(["Byte", "Int16ub"])))
    if r == 22: return A.Default(A.Alias("Byte"), 3)
    if r == 23: return A.Hex(A.Alias("Int16ub"))
    if r == 24: return A.NullTerminated(A.GreedyBytes, term=b"\xff", include=rng.random() < 0.3, consume=rng.random() < 0.7)
    if r == 25: return A.FixedSized(rng.choice([2, 4]), A.GreedyBytes)
    if r == 26 and depth > 0:
        # members of a nested type are compared through the enclosing member; kinds with a listed finding stay at the top level, where
        # a discrepancy is attributed to the member itself
        def clean():
            while True:
                m = exportable_member(rng, depth - 1)
                ks = {n["k"] for n in A.walk(m)}
                if not (ks & {"Enum", "FlagsEnum", "Padded", "NullTerminated", "PaddedString", "IfThenElse"}) and not any(n["k"] == "Prefixed" and n.get("incl") for n in A.walk(m)):
                    return m
        return A.Struct(*[A.Renamed(n, clean()) for n in "pq"[:rng.choice([1, 2])]])
    if r == 27: return A.BitStruct(*bit_members(rng))
    if r == 28: return A.RepeatUntil(A.Bin("==", A.Obj, A.C(0)), A.Alias("Byte"))
    return A.Alias("Byte")

def bit_members(rng):
    total, out, names = 0, [], iter("uvwxyz")
    while True:
        m = exportable_member(rng, 0, True)
        if m["k"] == "Array" and m["sub"]["k"] != "Bytewise":
            ew = 1 if m["sub"]["k"] == "Flag" else V.dec(m["sub"]["len"]["v"])
            out.append(A.Renamed(next(names), m)); total += V.dec(m["count"]["v"]) * ew
            if total % 8 == 0 or len(out) >= 5:
                break
            continue
        island = m["k"] == "Bytewise" or (m["k"] == "Array" and m["sub"]["k"] == "Bytewise")
        if island and total % 8:
            continue            # KSY byte types are byte aligned; an unaligned Bytewise island has no KSY spelling
        def iw(b):
            return 16 if b["sub"].get("name") == "Int16ub" or b["sub"]["k"] == "Struct" else 8
        w = 1 if m["k"] == "Flag" else {"Bit": 1, "Nibble": 4, "Octet": 8}.get(m.get("name"), None) if m["k"] == "Alias" else \
            iw(m) if m["k"] == "Bytewise" else 2 * iw(m["sub"]) if m["k"] == "Array" else V.dec(m["len"]["v"])
        out.append(A.Renamed(next(names), m)); total += w
        if total % 8 == 0 or len(out) >= 5:
            break
    if total % 8:
        out.append(A.Renamed("zz", A.BitsInteger(8 - total % 8)))
    return out

def exportable_program(rng):
    r = rng.random()
    if r < 0.12:
        return A.BitStruct(*bit_members(rng))
    names = "abcdefg"
    n = rng.choice([1, 2, 3, 4, 5])
    mem = []
    intnames = []
    for i in range(n):
        sub = exportable_member(rng, rng.choice([1, 2, 2]))
        # members that depend on earlier fields
        if intnames and rng.random() < 0.25:
            ref = rng.choice(intnames)
            sub = rng.choice([A.If(A.Bin(rng.choice([">", "==", "<"]), A.T(ref), A.C(1)), A.Alias("Int16ub")),
                              A.IfThenElse(A.Bin(">", A.T(ref), A.C(1)), A.Alias("Byte"), A.Alias("Int16ub")),
                              A.Array(A.T(ref), A.Alias("Byte")), A.Bytes(A.T(ref)), A.FixedSized(A.T(ref), A.GreedyBytes)])
        mem.append(A.Renamed(names[i], sub))
        if sub["k"] == "Alias" and sub["name"] in ("Byte", "Int8sb"):
            intnames.append(names[i])
    if rng.random() < 0.2:
        mem.append(A.Renamed("rest", rng.choice([A.GreedyBytes, A.GreedyRange(A.Alias("Byte")), A.GreedyString("utf8")])))
    return A.Struct(*mem)

def members_of(events, root_kinds):
    "top-level named members of the recorded parse: (name, start, end, value) in the coordinates of the members' stream"
    out = []
    depth = 0
    target = None
    stack = []
    for i, e in enumerate(events):
        if e["e"] == "in":
            stack.append((e, i))
        else:
            ein, _ = stack.pop()
            # a member = a Renamed whose parent chain is exactly the root composite (Struct, or Transformed > Struct for BitStruct)
            if e["k"] == "Renamed" and [x[0]["k"] for x in stack] in root_kinds:
                out.append({"name": ein["nm"], "s": ein["p"], "e": e["p"], "v": e["v"] if e["ok"] else V.VNone()})
    return out

def run(ctx):
    import construct as cs
    if SHIM not in sys.path:
        sys.path.insert(0, SHIM)
    rng = ctx.rng
    quick = ctx.quick()
    ctx.rule = ("a case is one (exportable program, canonical encoding) pair: the real export_ksy() document interpreted on the encoding vs the recorded parse; "
                "non-trivial = the program has at least two members and one of variable size")
    nprog = 500 if quick else 6000
    docs, cases = [], []
    export_failed = 0
    programs = 0
    nt = 0
    with campaign.Campaign(ctx, "c19", shard_size=1500) as camp:
        fixed = common.corpus(ctx)
        for i in range(nprog + len(fixed)):
            explicit = []
            if i < len(fixed):
                prog, explicit = fixed[i]["prog"], list(fixed[i].get("values", []))
            else:
                prog = exportable_program(rng)
            con = campaign.realizable(prog)
            if con is None:
                continue
            try:
                text = con.export_ksy()
                doc = json.loads(text)
            except Exception as ex:
                export_failed += 1
                continue
            try:
                sdoc = sanitize_doc(doc)
            except Exception:
                export_failed += 1
                continue
            programs += 1
            docs.append(sdoc)
            di = len(docs)
            bitroot = prog["k"] == "BitStruct"
            root_kinds = [["Transformed", "Struct"], ["Restreamed", "Struct"]] if bitroot else [["Struct"]]
            names = [m["name"] for m in prog["subs"]]
            for _ in range((4 if quick else 8) + len(explicit)):
                try:
                    v = explicit.pop() if explicit else gen.build_value(rng, prog, {})
                    data = con.build(v)
                except Exception:
                    continue
                ip, call = camp.parse(prog, con, data, 0, {})
                if not call["res"]["ok"]:
                    continue
                mem = members_of(call["events"], root_kinds)
                cases.append({"id": "k%d" % len(cases), "di": di, "data": list(data), "names": names, "members": mem,
                              "unit": 1 if bitroot else 8, "endpos": (len(data) * 8 if bitroot else call["res"]["p"]), "pi": i})
                cases[-1]["_prog"] = prog
                if len(names) >= 2:
                    nt += 1
            if programs <= 2:
                ctx.sample({"program": prog, "ksy": doc})
        # the construct side of every case is itself validated against Sem
        vs0 = camp.validate()
        campaign.judge(ctx, camp, vs0, conformance=None)
    progs_by_case = {c["id"]: c.pop("_prog") for c in cases}
    paths = []
    size = 250
    for k in range(0, len(cases), size):
        chunk = cases[k:k + size]
        used = sorted({c["di"] for c in chunk})
        remap = {d: j + 1 for j, d in enumerate(used)}
        p = os.path.join(ctx.scratch, "c19_%03d.json" % (k // size))
        with open(p, "w") as f:
            json.dump({"docs": [docs[d - 1] for d in used], "cases": [dict(c, di=remap[c["di"]]) for c in chunk], "done": [], "sessions": []}, f, separators=(",", ":"))
        paths.append(p)
    vs, stats = pipeline.validate(paths, jvms=ctx.jvms, workers=ctx.workers, scratch=ctx.scratch, module="TraceKsy")
    ctx.add_tlc(stats)
    byid = {c["id"]: c for c in cases}
    spec_errors = [v for v in vs if v["st"] == "spec-error"]
    if spec_errors:
        raise tlc.MachineryError("%d TLC evaluation errors in TraceKsy, e.g. %s on %s" % (len(spec_errors), spec_errors[0]["why"], json.dumps(progs_by_case[spec_errors[0]["id"]])[:300]))
    disagreements = 0
    for v in vs:
        if v["st"] == "mismatch":
            disagreements += 1
            c = byid[v["id"]]
            prog = progs_by_case[v["id"]]
            member = next((m for m in prog["subs"] if m.get("name") == v["at"]), None)
            scope = member["sub"] if member else prog
            def kinds(n, inbits):
                out = set()
                k = n["k"] + (":includelength" if n["k"] == "Prefixed" and n.get("incl") else "") + \
                    (":slot" if n["k"] == "Padded" and n["sub"]["k"] in ("Array", "Bytes", "Const") else "") + \
                    (":bits" if n["k"] == "Array" and inbits and n["sub"]["k"] in ("Flag", "BitsInteger") else "") + \
                    (":bits" if n["k"] == "If" and inbits and n["sub"]["k"] in ("Flag", "BitsInteger", "Padding", "Struct") else "")
                out.add(k)
                b2 = (inbits or n["k"] in ("BitStruct", "Bitwise")) and n["k"] != "Bytewise"
                for key in ("sub", "lenf", "then", "else", "default", "field", "cf"):
                    if key in n and isinstance(n[key], dict):
                        out |= kinds(n[key], b2)
                for key in ("subs", "cv"):
                    for x in n.get(key, []):
                        out |= kinds(x, b2)
                return out
            mk = sorted(kinds(scope, prog["k"] in ("BitStruct", "Bitwise") and scope is not prog))
            culprit = next((k for k in SUSPECTS if k in mk), "other")
            ctx.report("C19." + v["why"].split(":")[0], {"why": v["why"], "kinds": mk, "member_kind": culprit},
                       {"kind": "ksy", "prog": prog, "doc": docs[c["di"] - 1], "data": c["data"], "members": c["members"], "verdict": v})
    ctx.cov["evaluations"] += len(vs)
    ctx.cov["traces_validated_against_impl"] += len(vs)
    ctx.cov["distinct_nontrivial"] = nt
    ctx.extra = {"programs": programs, "disagreements_checked": disagreements, "programs_whose_export_raises": export_failed}
