"""C18  Errors name the member in which parsing or building failed.

Decided on recorded behaviours by spec/CAM.tla (clause C18.path: at every failing leave step the error's path is the operation prefix plus
the names of the Renamed nodes on the stack where the error was created, and it is kept while the error propagates; C18.path-kept at the
root) and by C18Trunc (spec/Props.tla): for a canonical encoding truncated at every offset j, the path of the resulting error names
the members whose extent in the successful behaviour contains j.
"""
import itertools
from .. import ast as A, gen, values as V, campaign
from . import common

LEVEL = "model_checking"

def named_program(rng, depth):
    "nested Struct/Sequence/Array/Prefixed/FixedSized/IfThenElse/Switch shapes with named members"
    def member(d, names):
        r = rng.random()
        if d <= 0 or r < 0.3:
            return rng.choice([A.Alias("Byte"), A.Alias("Int16ub"), A.Bytes(2), A.Alias("Int24ul"), A.CString("utf8"), A.PascalString(A.Alias("Byte"), "utf8"),
                               A.Flag, A.VarInt, A.PaddedString(3, "ascii"), A.Const(b"\x01\x02"), A.Enum(A.Alias("Byte"), a=1, b=2)])
        if r < 0.55: return struct(d - 1)
        if r < 0.65: return A.Sequence(*[A.Renamed(n, member(d - 1, names)) for n in "uv"])
        if r < 0.75: return A.Array(rng.choice([1, 2, 3]), member(d - 1, names))
        if r < 0.79: return A.Prefixed(A.Alias("Byte"), struct(d - 1))
        if r < 0.82: return A.Prefixed(rng.choice([A.VarInt, A.Alias("Int16ub"), A.BytesInteger(A.T("_params", "w"))]), struct(d - 1), incl=True)   # the length field's own size enters the arithmetic
        if r < 0.88: return A.FixedSized(rng.choice([4, 6, 8]), struct(d - 1))
        if r < 0.94: return A.IfThenElse(A.Bin(">=", A.T("a"), A.C(1)) if "a" in names else A.C(True), member(d - 1, names), member(d - 1, names))
        return A.Switch(A.T("a") if "a" in names else A.C(1), [(0, member(d - 1, names)), (1, member(d - 1, names))], default=member(d - 1, names))
    def struct(d):
        names = []
        subs = []
        for nm in "abcd"[:rng.choice([2, 3, 4])]:
            sub = A.Alias("Byte") if nm == "a" and rng.random() < 0.6 else member(d, names)
            subs.append(A.Renamed(nm, sub))
            names.append(nm)
        return A.Struct(*subs)
    return struct(depth)

def run(ctx):
    rng = ctx.rng
    quick = ctx.quick()
    ctx.rule = ("cases: failing parses (every truncation offset of canonical encodings of nested named structures; random inputs), failing builds (every member "
                "made unbuildable in turn by removing it or giving it a wrong type), failing sizeof; non-trivial = the failure is at least two named levels deep")
    nprog = 700 if quick else 9000
    nt = 0
    with campaign.Campaign(ctx, "c18", shard_size=1500) as camp:
        for i in range(nprog):
            prog = named_program(rng, rng.choice([1, 2, 2, 3])) if i % 3 else gen.program(rng, 3, {})
            con = campaign.realizable(prog)
            if con is None:
                continue
            for _ in range(3):
                try:
                    v = gen.build_value(rng, prog, {})
                except Exception:
                    continue
                ib, b = camp.build(prog, con, v, b"", {})
                if not b["res"]["ok"]:
                    continue
                out = bytes(b["res"]["v"]["b"])
                ifull, full = camp.parse(prog, con, out, 0, {})
                if not full["res"]["ok"]:
                    continue
                for j in range(len(out)):
                    ip, p = camp.parse(prog, con, out[:j], 0, {}, tag="trunc")
                    camp.sh.session("C18.trunc", [ifull, ip])
                # every member made unbuildable in turn
                if isinstance(v, dict):
                    for key in list(v):
                        for bad in (None, "wrong-type", -1, [1, 2]):
                            v2 = dict(v); v2[key] = bad
                            camp.build(prog, con, v2, b"", {}, tag="unbuildable")
                        v3 = dict(v); del v3[key]
                        camp.build(prog, con, v3, b"", {}, tag="missing")
                    sub = next((k for k in v if isinstance(v[k], dict) and v[k]), None)
                    if sub:
                        for key in list(v[sub]):
                            v4 = dict(v); v4[sub] = dict(v[sub]); v4[sub][key] = rng.choice([None, "x", -5])
                            camp.build(prog, con, v4, b"", {}, tag="unbuildable-deep")
            for _ in range(3):
                camp.parse(prog, con, gen.random_input(rng, 6), 0, {})
            camp.sizeof(prog, con, {})
            camp.sh.maybe_flush()
            if i < 3:
                ctx.sample({"program": prog})
        # recursive formats (LazyBound): the path names every level the failure lies below, however deep
        from .. import universes as U
        point = A.Renamed("point", A.Struct(A.Renamed("x", A.Alias("Byte")), A.Renamed("y", A.Alias("Int16ub")), A.Renamed("v", A.VarInt)))
        relabelled = [(A.Struct(A.Renamed("origin", point), A.Renamed("t", A.Alias("Byte"))), {}, [{"origin": {"x": 1, "y": 2, "v": 300}, "t": 3}]),
                      (A.Struct(A.Renamed("a", A.Renamed("b", A.Renamed("c", A.Alias("Int16ub")))), A.Renamed("p", A.Prefixed(A.Alias("Byte"), A.Renamed("q", point)))), {},
                       [{"a": 5, "p": {"x": 1, "y": 2, "v": 3}}]),
                      (A.Array(2, A.Renamed("e", point)), {}, [[{"x": 1, "y": 2, "v": 3}, {"x": 4, "y": 5, "v": 6}]])]
        # (a definition that carries its own name, embedded under another name: both names are steps of the path)
        for prog, kw, vals in relabelled + U.recursive_programs():
            con = campaign.realizable(prog)
            if con is None:
                continue
            for v in vals:
                ib, b = camp.build(prog, con, v, b"", kw)
                if not b["res"]["ok"]:
                    continue
                out = bytes(b["res"]["v"]["b"])
                ifull, full = camp.parse(prog, con, out, 0, kw)
                if not full["res"]["ok"]:
                    continue
                for j in range(len(out)):
                    ip, p = camp.parse(prog, con, out[:j], 0, kw, tag="trunc")
                    camp.sh.session("C18.trunc", [ifull, ip])
                    nt += 1
            # a value that cannot be built, at every depth
            def spoil(v, depth):
                if isinstance(v, dict):
                    for k in v:
                        if isinstance(v[k], dict):
                            yield from ({**v, k: x} for x in spoil(v[k], depth + 1))
                        elif isinstance(v[k], list) and v[k] and isinstance(v[k][0], dict):
                            yield from ({**v, k: [x] + v[k][1:]} for x in spoil(v[k][0], depth + 1))
                        else:
                            yield {**v, k: "wrong-type"}
                            yield {kk: vv for kk, vv in v.items() if kk != k}
            for v in vals:
                for bad in itertools.islice(spoil(v, 0), 40):
                    camp.build(prog, con, bad, b"", kw, tag="unbuildable-deep")
            camp.sizeof(prog, con, kw)
            camp.sh.maybe_flush()
        vs = camp.validate()
        campaign.judge(ctx, camp, vs, conformance=None, clauses=("C18.trunc",))
        cvs = campaign.validate_cam(camp)
        campaign.judge_cam(ctx, camp, cvs, ["C18."])
        if True:
            # the repository's own tests (core, compiler, gallery formats on their sample files), recorded under the hook and replayed through the pushdown machine
            from .. import repotests
            repotests.run(ctx, ["C18."])
        for cid, m in camp.sh.meta.items():
            if "case" in m and not m["case"]["res"]["ok"] and len(m["case"]["res"].get("path", [])) >= 3:
                nt += 1
        ctx.cov["distinct_nontrivial"] = nt
    ctx.assumptions.append("compiled constructs are exempt (documented: no path information)")
