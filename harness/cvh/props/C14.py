"""C14  RawCopy reports the exact bytes processed; checksums built always verify.

Recorded on the real library, judged by TLC:
 * spec/CAM.tla clauses C14.rawcopy-parse / C14.rawcopy-build at every RawCopy leave step: offset1/offset2 are the enter position and the member's
   leave position (absolute), length their difference, value the member's value, data the slice of the outermost input between the offsets;
 * C14SameBytes: building from {value} and from {data} emits the same bytes; C14Verifies: a checksum built over a region verifies when parsed back;
   C14Detects: every single-bit flip of the covered region or of the stored digest raises ChecksumError;
 * trace validation against Sem, where the hash functions (hashlib, zlib.crc32, byte sum: documented arguments of Checksum) are uninterpreted and
   their graph on the explored inputs is logged by the harness.
"""
from .. import ast as A, gen, values as V, campaign, universes as U, speccode
from . import common

LEVEL = "model_checking"
CLAUSES = ("C14.verifies", "C14.detects", "C14.samebytes", "C04.equiv")

def inner(rng):
    return rng.choice([A.Alias("Byte"), A.Alias("Int16ub"), A.Bytes(3), A.Struct(A.Renamed("a", A.Alias("Byte")), A.Renamed("b", A.Alias("Int16ul"))),
                       A.PascalString(A.Alias("Byte"), "utf8"), A.Prefixed(A.Alias("Byte"), A.GreedyBytes), A.VarInt, A.CString("ascii"),
                       A.Array(2, A.Alias("Int16ub")), A.GreedyBytes, A.Struct(A.Renamed("n", A.Alias("Byte")), A.Renamed("d", A.Bytes(A.T("n")))),
                       A.BitStruct(A.Renamed("x", A.Alias("Nibble")), A.Renamed("y", A.Alias("Nibble")))])

def fixed_inner(rng):
    return rng.choice([A.Bytes(rng.choice([1, 2, 4])), A.Alias("Int16ub"), A.Struct(A.Renamed("a", A.Alias("Byte")), A.Renamed("b", A.Alias("Int16ul"))),
                       A.Array(2, A.Alias("Int16ub")), A.Alias("Int32sl")])

def digest_field(rng, hashname):
    if hashname in ("sha1",): return A.Bytes(20)
    if hashname == "md5": return A.Bytes(16)
    if hashname == "sha256_8": return A.Bytes(8)
    if hashname == "crc32": return rng.choice([A.Alias("Int32ub"), A.Alias("Int32ul")])
    if hashname == "sum8": return A.Alias("Byte")
    if hashname == "sha256_i64": return rng.choice([A.Alias("Int64ub"), A.Alias("Int64ul"), A.BytesInteger(8, swapped=True)])
    if hashname == "sha256_i48": return rng.choice([A.BytesInteger(6), A.BytesInteger(6, swapped=True)])
    return A.Alias("Int16ub")

def checksum_program(rng, covered):
    "(program, offset of the covered region in the encoding, function wrapping the core value)"
    h = rng.choice(["sha1", "md5", "sha256_8", "crc32", "sum8", "adler16", "sha256_i64", "sha256_i48"])
    core = A.Struct(A.Renamed("raw", A.RawCopy(covered)), A.Renamed("chk", A.Checksum(digest_field(rng, h), h, A.T("raw", "data"))))
    r = rng.randrange(4)
    if r == 0: return core, 0, (lambda c: c)
    if r == 1: return A.Struct(A.Renamed("h", A.Bytes(2)), A.Renamed("body", core)), 2, (lambda c: {"h": b"\x10\x20", "body": c})
    if r == 2: return A.Prefixed(A.Alias("Byte"), core), 1, (lambda c: c)
    return A.Struct(A.Renamed("h", A.Alias("Byte")), A.Renamed("body", A.FixedSized(40, core))), 1, (lambda c: {"h": 9, "body": c})

def run(ctx):
    rng = ctx.rng
    quick = ctx.quick()
    ctx.rule = ("cases: parse/build of RawCopy around fixed, variable and nested members inside substreams at non-zero offsets; checksum structures built from random payloads, "
                "parsed back, and parsed again with every single bit of the covered region and of the digest flipped; non-trivial = a flip was applied or the member is variable-size")
    nprog = 220 if quick else 3000
    nt = 0
    with campaign.Campaign(ctx, "c14", shard_size=1500) as camp:
        for i in range(nprog):
            # --- RawCopy
            sub = inner(rng)
            rc = A.RawCopy(sub)
            prog = rng.choice([rc, A.Struct(A.Renamed("h", A.Bytes(rng.choice([1, 3]))), A.Renamed("r", rc), A.Renamed("t", A.Tell)),
                               A.Prefixed(A.Alias("Byte"), A.Struct(A.Renamed("r", rc))), A.FixedSized(12, A.Struct(A.Renamed("a", A.Alias("Byte")), A.Renamed("r", rc))),
                               A.Struct(A.Renamed("r1", rc), A.Renamed("r2", A.RawCopy(A.Alias("Byte")))),
                               A.Struct(A.Renamed("h", A.Bytes(3)), A.Renamed("r", A.Prefixed(A.Alias("Byte"), A.Struct(A.Renamed("a", A.Alias("Byte")), A.Renamed("f", A.FixedSized(14, A.Struct(A.Renamed("r", rc))))))))])
            con = campaign.realizable(prog)
            comp = None
            if con is not None and i % 2 == 0:
                try:
                    comp = con.compile()
                except Exception:
                    comp = None
            if con is not None:
                for _ in range(3):
                    try:
                        v = gen.build_value(rng, sub, {})
                    except Exception:
                        continue
                    hdr = gen.rbytes(rng, V.dec(prog["subs"][0]["sub"]["len"]["v"])) if prog["k"] == "Struct" and prog["subs"][0]["name"] == "h" else b""
                    def wrap(payload, hdr=hdr):
                        if prog is rc: return payload
                        if prog["k"] == "Struct" and prog["subs"][0]["name"] == "h" and prog["subs"][1]["sub"]["k"] == "Prefixed": return {"h": hdr, "r": {"a": 5, "f": {"r": payload}}}
                        if prog["k"] == "Struct" and prog["subs"][0]["name"] == "h": return {"h": hdr, "r": payload}
                        if prog["k"] == "Prefixed": return {"r": payload}
                        if prog["k"] == "FixedSized": return {"a": 1, "r": payload}
                        return {"r1": payload, "r2": {"value": 7}}
                    pre = rng.choice([b"", b"\xee\xee"])
                    ibv, bv = camp.build(prog, con, wrap({"value": v}), pre, {})
                    if bv["res"]["ok"]:
                        try:
                            data = bytes(A.realize(sub).build(v))
                        except Exception:
                            data = None
                        if data is not None:
                            ibd, bd = camp.build(prog, con, wrap({"data": data}), pre, {})
                            camp.sh.session("C14.samebytes", [ibv, ibd])
                        st = rng.choice([0, 1, 3])
                        full = b"\xee" * st + bytes(bv["res"]["v"]["b"]) + gen.rbytes(rng, 2)
                        ipi, _ = camp.parse(prog, con, full, st, {})
                        nt += 1
                        # generated code reports the same extents, offsets and raw bytes
                        if comp is not None:
                            ipc, _ = camp.parse({"k": "Opaque", "desc": "compiled"}, comp, full, st, {})
                            camp.sh.session("C04.equiv", [ipi, ipc])
                for _ in range(2):
                    camp.parse(prog, con, gen.random_input(rng, 8), 0, {})
            # --- Checksum
            covered = fixed_inner(rng) if i % 3 else rng.choice([x for x in [inner(rng) for _ in range(6)] if x["k"] != "GreedyBytes"] or [A.VarInt])
            prog, off, wrapcore = checksum_program(rng, covered)
            con = campaign.realizable(prog)
            if con is None:
                continue
            fixed = i % 3 != 0
            for _ in range(2):
                try:
                    body = wrapcore({"raw": {"value": gen.build_value(rng, covered, {})}})
                except Exception:
                    continue
                # the digest of the canonical covered bytes, whatever the implementation will hash
                try:
                    A.prime_hashes(prog, [A.realize(covered).build(body["raw"]["value"] if "raw" in body else body["body"]["raw"]["value"])])
                except Exception:
                    pass
                ib, b = camp.build(prog, con, body, b"", {})
                if not b["res"]["ok"]:
                    continue
                out = bytes(b["res"]["v"]["b"])
                ip, p = camp.parse(prog, con, out, 0, {})
                camp.sh.session("C14.verifies", [ib, ip])
                # the digest is always computed from the bytes just built: a stale one left in the value (parse, edit, build again) is ignored
                try:
                    stale = V.dec(p["res"]["v"]) if p["res"]["ok"] else None
                except Exception:
                    stale = None
                if stale is not None:
                    def edit(o):
                        import construct as cs
                        if isinstance(o, dict):
                            for k in list(o.keys()):
                                if k in ("chk", "checksum", "digest", "hash"):
                                    o[k] = (b"\x00" * len(o[k])) if isinstance(o[k], (bytes, bytearray)) else 0
                                else:
                                    edit(o[k])
                    # (a value that does not survive its own member -- text with an embedded terminator under a CString -- is outside
                    #  the member's domain: what is parsed back is another value, and building it gives other bytes)
                    try:
                        orig = body["raw"]["value"] if "raw" in body else body["body"]["raw"]["value"]
                        back = stale["raw"]["value"] if "raw" in stale else stale["body"]["raw"]["value"]
                        indomain = V.enc(back) == V.enc(orig)
                    except Exception:
                        indomain = False
                    edit(stale)
                    if indomain:
                        ib2, b2 = camp.build(prog, con, stale, b"", {})
                        camp.sh.session("C14.samebytes", [ib, ib2])
                if fixed and p["res"]["ok"]:
                    # flip every bit of the covered region and of the digest (both lie after `off` header bytes)
                    # covered region + digest follow the `off` header bytes; their lengths come from the real objects
                    clen = len(A.realize(covered).build(body["raw"]["value"] if "raw" in body else body["body"]["raw"]["value"]))
                    core = prog if prog["k"] == "Struct" and prog["subs"][0]["name"] == "raw" else (prog["sub"] if prog["k"] == "Prefixed" else (prog["subs"][1]["sub"] if prog["subs"][1]["sub"]["k"] == "Struct" else prog["subs"][1]["sub"]["sub"]))
                    dlen = A.realize(core["subs"][1]["sub"]["field"]).sizeof()
                    end = off + clen + dlen
                    positions = range(off, end)
                    bits = [(q, bit) for q in positions for bit in range(8)]
                    if quick and len(bits) > 48:
                        bits = rng.sample(bits, 48)
                    for q, bit in bits:
                        mut = bytearray(out); mut[q] ^= 1 << bit
                        A.prime_hashes(prog, [mut[off:off + clen]])
                        ipf, pf = camp.parse(prog, con, bytes(mut), 0, {}, tag="flip")
                        camp.sh.session("C14.detects", [ib, ipf])
                        nt += 1
            camp.sh.maybe_flush()
            if i < 3:
                ctx.sample({"program": prog})
        # a RawCopy built where bytes already follow it (a header slot reserved first, filled in through a Pointer once the body is written):
        # `data` is what the member wrote, not what happens to lie behind it
        for hdr, hv, hd in ((A.Alias("Int16ub"), 0x0102, b"\x01\x02"), (A.Struct(A.Renamed("a", A.Alias("Byte")), A.Renamed("b", A.Alias("Byte"))), {"a": 3, "b": 4}, b"\x03\x04"),
                            (A.Bytes(2), b"hi", b"hi")):
            for h in ("sum8", "crc32", "sha256_i64"):
                prog = A.Struct(A.Renamed("at", A.Tell), A.Padding(2), A.Renamed("body", A.Bytes(3)), A.Renamed("hdr", A.Pointer(A.T("at"), A.RawCopy(hdr))),
                                A.Renamed("chk", A.Checksum(digest_field(rng, h), h, A.T("hdr", "data"))))
                con = campaign.realizable(prog)
                if con is None:
                    continue
                A.prime_hashes(prog, [hd])
                iv, bv = camp.build(prog, con, {"body": b"abc", "hdr": {"value": hv}}, rng.choice([b"", b"\xee"]), {})
                idd, bd = camp.build(prog, con, {"body": b"abc", "hdr": {"data": hd}}, b"", {})
                if bv["res"]["ok"]:
                    out = bytes(bv["res"]["v"]["b"])
                    ip, p = camp.parse(prog, con, out, 0, {})
                    camp.sh.session("C14.verifies", [iv, ip])
                    nt += 1
            camp.sh.maybe_flush()
        # a covered region that ends a fixed distance before the end of its enclosing region (the digest sits behind it), in regions at non-zero offsets
        for h, dl in (("crc32", 4), ("sum8", 1), ("sha256_i64", 8)):
            core = A.Struct(A.Renamed("fields", A.RawCopy(A.OffsettedEnd(-dl, A.GreedyBytes))), A.Renamed("crc", A.Checksum(digest_field(rng, h), h, A.T("fields", "data"))))
            for prog, wrapv in ((A.Prefixed(A.Alias("Int16ub"), core), lambda c: c), (A.Struct(A.Renamed("h", A.Bytes(3)), A.Renamed("b", A.Prefixed(A.Alias("Byte"), core)), A.Renamed("t", A.Alias("Byte"))), lambda c: {"h": b"abc", "b": c, "t": 9}),
                                (A.Struct(A.Renamed("h", A.Alias("Byte")), A.Renamed("b", A.FixedSized(5 + dl, core))), lambda c: {"h": 1, "b": c})):
                con = campaign.realizable(prog)
                if con is None:
                    continue
                for payload in (b"hello", b"\x00\x01\x02\x03\x04"):
                    A.prime_hashes(prog, [payload])
                    ib, b = camp.build(prog, con, wrapv({"fields": {"value": payload}}), b"", {})
                    if b["res"]["ok"]:
                        out = bytes(b["res"]["v"]["b"])
                        ip, p = camp.parse(prog, con, out, 0, {})
                        camp.sh.session("C14.verifies", [ib, ip])
                        st = 2
                        camp.parse(prog, con, b"\xee" * st + out, st, {})
                        nt += 1
            camp.sh.maybe_flush()
        # spec -> code: every session TLC explores on the RawCopy part of the model's universe (machine clauses checked on the design there)
        uprogs, ukw, sessions, _ = speccode.explore(ctx, focus="C14", part=speccode.part_of(ctx, 8 if quick else 6))
        nt += speccode.drive(camp, uprogs, ukw, sessions)
        vs = camp.validate()
        def conf(v, m):
            k = campaign.kind_of(v)
            return k in common.VALUE_KINDS and (v["exp"]["k"] in ("RawCopy", "Checksum") or v["got"]["k"] in ("RawCopy", "Checksum"))
        campaign.judge(ctx, camp, vs, conformance=conf, clauses=CLAUSES)
        cvs = campaign.validate_cam(camp)
        campaign.judge_cam(ctx, camp, cvs, ["C14."])
        if True:
            # the repository's own tests (core, compiler, gallery formats on their sample files), recorded under the hook and replayed through the pushdown machine
            from .. import repotests
            repotests.run(ctx, ["C14."])
        ctx.cov["distinct_nontrivial"] = nt
    ctx.assumptions.append("hash functions are uninterpreted; a flipped input whose digest collides with the original would be a false alarm (digests of >= 8 bits over <= 64 flips)")
