"""C12  Documented construct equivalences hold extensionally.

Every law of the documentation (a <--> b) and every documented operator spelling is instantiated over its parameters; both sides are built through the real
factories / operators and run on the same inputs (all byte strings of the relevant lengths +-1 over the boundary alphabet, random ones) and the same values
(domain, boundary and out-of-range).  TLC evaluates C12Equiv on every recorded pair: both accept or both reject, equal values, equal positions, identical bytes;
the left-hand sides are also validated against Sem.
"""
import enum, itertools
from .. import ast as A, gen, values as V, campaign
from . import common

LEVEL = "model_checking"
CLAUSE = "C12.equiv"

def opaque(desc, thunk):
    return {"k": "Opaque", "desc": desc, "_thunk": None}, thunk

def laws(rng, quick):
    "yields (name, lhs AST, rhs (AST or (desc, thunk)), input lengths, values)"
    import construct as cs
    L = []
    ints = lambda bits, signed: sorted({0, 1, -1, 2, 127, 128, 255, 256, (1 << (bits - 1)) - 1, (1 << (bits - 1)), -(1 << (bits - 1)), -(1 << (bits - 1)) - 1,
                                        (1 << bits) - 1, (1 << bits), rng.randrange(1 << bits), -rng.randrange(1 << bits)}) + ["x", None, 1.5]
    widths = [1, 2, 3, 4, 7, 8, 16] if quick else [1, 2, 3, 4, 5, 6, 7, 8, 9, 12, 16]       # from 7 bytes on, 2**(8n-1) is not a double
    for n in widths:
        for signed in (False, True):
            for swapped in (False, True):
                L.append(("BytesInteger<->Bitwise(BitsInteger)", A.BytesInteger(n, signed, swapped), A.Bitwise(A.BitsInteger(8 * n, signed, swapped)), [n], ints(8 * n, signed)))
                L.append(("Bitwise(BitsInteger)<->Bitwise(Bytewise(BytesInteger))", A.Bitwise(A.BitsInteger(8 * n, signed, swapped)),
                          A.Bitwise(A.Bytewise(A.BytesInteger(n, signed, swapped))), [n], ints(8 * n, signed)))
    L.append(("Int24ul<->ByteSwapped(Int24ub)", A.Alias("Int24ul"), A.ByteSwapped(A.Alias("Int24ub")), [3], ints(24, False)))
    L.append(("Int24ul<->BytesInteger(3,swapped)", A.Alias("Int24ul"), A.BytesInteger(3, False, True), [3], ints(24, False)))
    L.append(("Int24sl<->ByteSwapped(Int24sb)", A.Alias("Int24sl"), A.ByteSwapped(A.Alias("Int24sb")), [3], ints(24, True)))
    for name in A.ALIASES:
        if name.startswith("Int") and len(name) > 4 and not name.startswith("Int24"):
            bits = int("".join(c for c in name[3:] if c.isdigit())); signed = name[-2] == "s"; order = name[-1]
            L.append(("alias<->BytesInteger", A.Alias(name), A.BytesInteger(bits // 8, signed, order in "ln"), [bits // 8], ints(bits, signed)))
            L.append(("alias<->FormatField", A.Alias(name), A.FormatField({"b": ">", "l": "<", "n": "="}[order], {8: "b", 16: "h", 32: "l", 64: "q"}[bits].upper() if not signed else {8: "b", 16: "h", 32: "l", 64: "q"}[bits]), [bits // 8], ints(bits, signed)))
        if name.startswith("Float"):
            bits = int(name[5:7]); order = name[-1]
            L.append(("alias<->FormatField", A.Alias(name), A.FormatField({"b": ">", "l": "<", "n": "="}[order], {16: "e", 32: "f", 64: "d"}[bits]), [bits // 8], gen.FLOATS[:14] + [1, "x", None]))
    for a, b in (("Byte", "Int8ub"), ("Short", "Int16ub"), ("Int", "Int32ub"), ("Long", "Int64ub"), ("Half", "Float16b"), ("Single", "Float32b"), ("Double", "Float64b")):
        L.append(("alias<->alias", A.Alias(a), A.Alias(b), [gen.alias_info(b)[1].bit_length() // 8 if b.startswith("Int") else int(b[5:7]) // 8], [0, 1, 255, 256, -1, 65535, 2**32, 2**64 - 1, 2**64, 1.5, None]))
    subs = [A.Alias("Byte"), A.Alias("Int16ub"), A.Const(b"\x01"), A.VarInt, A.CString("utf8"), A.Flag, A.Alias("Int8sb"), A.Alias("Int16sl"), A.BytesInteger(3, signed=True)]
    for x in subs:
        L.append(("Optional<->Select(x,Pass)", A.Optional(x), A.Select(x, A.Pass), [0, 1, 2, 3], [None, 0, 1, 255, 256, "a", b"\x01", True]))
        for c in (A.C(True), A.C(False), A.T("_params", "k"), A.Bin("==", A.T("_params", "k"), A.C(2))):
            L.append(("If<->IfThenElse(c,x,Pass)", A.If(c, x), A.IfThenElse(c, x, A.Pass), [0, 1, 2, 3], [None, 0, 1, 255, 256, "a", b"\x01", True]))
        for cf in (A.Alias("Byte"), A.VarInt, A.Alias("Int16ul")):
            exp = A.FocusedSeq("items", A.Renamed("count", A.Rebuild(cf, A.Func("len", A.T("items")))), A.Renamed("items", A.Array(A.T("count"), x)))
            L.append(("PrefixedArray<->FocusedSeq expansion", A.PrefixedArray(cf, x), exp, [0, 1, 2, 3, 4, 5], [[], [1], [1, 2, 3], [0, 255], ["a", "b"], [b"\x01"], None, 5, [True, False]]))
    for n in (0, 1, 2, 5, A.T("_params", "k")):
        for pat in (0, 0xff):
            L.append(("Padding<->Padded(n,Pass)", A.Padding(n, pat), A.Padded(n, A.Pass, pat), [0, 1, 2, 3, 5, 6], [None, 0, b"x"]))
    for fields in ([A.Renamed("a", A.BitsInteger(3)), A.Renamed("b", A.BitsInteger(5, signed=True))],
                   [A.Renamed("a", A.Alias("Nibble")), A.Renamed("b", A.BitsInteger(12)), A.Renamed("f", A.Flag), A.Padding(7)],
                   [A.Renamed("a", A.BitsInteger(16, swapped=True)), A.Renamed("b", A.Bytewise(A.Bytes(1)))],
                   [A.Renamed("a", A.BitsInteger(A.T("_params", "k"))), A.Renamed("b", A.BitsInteger(6))]):
        vals = [{"a": a, "b": b, "f": True} for a in (0, 1, 5, 7, 255, -1) for b in (0, 1, -1, -16, 15, 31, b"\x41")]
        L.append(("BitStruct<->Bitwise(Struct)", A.BitStruct(*fields), A.Bitwise(A.Struct(*fields)), [0, 1, 2, 3, 4], vals))
    # Hex / HexDump wrappers vs the bare construct
    for x, vals in ((A.Alias("Int16ub"), [0, 1, 65535, 65536, -1, "x"]), (A.Bytes(2), [b"ab", b"a", b"abc", 5, None]),
                    (A.Alias("Int8sb"), [0, 1, -1, -128, 127, 128, 255]), (A.Alias("Int16sl"), [0, -1, -32768, 32767, 65535]), (A.BytesInteger(3, signed=True), [0, -1, -2**23, 2**23]),
                    (A.Alias("Int32sb"), [0, -1, -2**31, 2**31 - 1]), (A.VarInt, [0, 1, 300]), (A.ZigZag, [0, -1, 300, -300]),
                    (A.Struct(A.Renamed("a", A.Alias("Byte"))), [{"a": 1}, {"a": 256}, {}, None])):
        L.append(("Hex<->bare", A.Hex(x), x, [0, 1, 2, 3], vals))
        L.append(("HexDump<->bare", A.HexDump(x), x, [0, 1, 2, 3], vals))
    # Enum / FlagsEnum from IntEnum / IntFlag classes vs keywords
    class E(enum.IntEnum):
        one = 1; two = 2; zero = 0; big = 255
    class F(enum.IntFlag):
        a = 1; b = 2; c = 0x80          # (Python does not iterate zero-valued members of an IntFlag: not part of the law)
    class G(enum.IntEnum):
        none = 0; read = 1; write = 2
    class EA(enum.IntEnum):             # aliases are not members: iterating the class yields the canonical names only
        one = 1; uno = 1; two = 2; dos = 2; three = 3
    class FC(enum.IntFlag):             # nor are composite masks
        r = 4; w = 2; x = 1; rw = 6
    evals = [0, 1, 2, 3, 255, 256, "one", "two", "zero", "big", "nosuch", None, -1]
    fvals = [0, 1, 3, 0x83, 255, "a", "a|b", " b | c ", "none", "none|a", "zz", {"a": True, "b": False}, {"none": True, "c": True}, {"zz": True}, None,
             "read", "read|write", {"read": True, "none": True}]
    for sub in (A.Alias("Byte"), A.Alias("Int16ul")):
        L.append(("Enum(IntEnum)<->Enum(keywords)", ({"k": "Opaque", "desc": "Enum(sub, E)"}, lambda sub=sub: cs.Enum(A.realize(sub), E)),
                  A.Enum(sub, one=1, two=2, zero=0, big=255), [0, 1, 2], evals))
        L.append(("FlagsEnum(IntFlag)<->FlagsEnum(keywords)", ({"k": "Opaque", "desc": "FlagsEnum(sub, F)"}, lambda sub=sub: cs.FlagsEnum(A.realize(sub), F)),
                  A.FlagsEnum(sub, a=1, b=2, c=0x80), [0, 1, 2], fvals))
        L.append(("FlagsEnum(IntEnum)<->FlagsEnum(keywords)", ({"k": "Opaque", "desc": "FlagsEnum(sub, G)"}, lambda sub=sub: cs.FlagsEnum(A.realize(sub), G)),
                  A.FlagsEnum(sub, none=0, read=1, write=2), [0, 1, 2], fvals))
    for sub in (A.Alias("Byte"),):
        L.append(("Enum(IntEnum with aliases)<->Enum(keywords)", ({"k": "Opaque", "desc": "Enum(sub, EA)"}, lambda sub=sub: cs.Enum(A.realize(sub), EA)),
                  A.Enum(sub, **{m.name: int(m.value) for m in EA}), [0, 1, 2], [0, 1, 2, 3, 4, "one", "uno", "two", "dos", "three", None]))
        L.append(("FlagsEnum(IntFlag with masks)<->FlagsEnum(keywords)", ({"k": "Opaque", "desc": "FlagsEnum(sub, FC)"}, lambda sub=sub: cs.FlagsEnum(A.realize(sub), FC)),
                  A.FlagsEnum(sub, **{m.name: int(m.value) for m in FC}), [0, 1, 2], [0, 1, 2, 4, 6, 7, "r", "rw", "r|w", {"r": True}, {"rw": True}, None]))
        L.append(("Enum(IntFlag with masks)<->Enum(keywords)", ({"k": "Opaque", "desc": "Enum(sub, FC)"}, lambda sub=sub: cs.Enum(A.realize(sub), FC)),
                  A.Enum(sub, **{m.name: int(m.value) for m in FC}), [0, 1, 2], [0, 1, 2, 4, 6, 7, "r", "rw", None]))
    # operator spellings
    by, sh = A.Alias("Byte"), A.Alias("Int16ub")
    L.append(("x[n]<->Array(n,x)", ({"k": "Opaque", "desc": "Byte[3]"}, lambda: cs.Byte[3]), A.Array(3, by), [2, 3, 4], [[1, 2, 3], [1, 2], [1, 2, 3, 4], None, [256, 0, 0]]))
    L.append(("x[this.k]<->Array(this.k,x)", ({"k": "Opaque", "desc": "Int16ub[this._params.k]"}, lambda: cs.Int16ub[cs.this._params.k]), A.Array(A.T("_params", "k"), sh), [2, 3, 4, 5], [[1, 2], [1], [], [1, 2, 3]]))
    L.append(("a+b<->Struct", ({"k": "Opaque", "desc": "'a'/Byte + 'b'/Int16ub"}, lambda: ("a" / cs.Byte) + ("b" / cs.Int16ub)), A.Struct(A.Renamed("a", by), A.Renamed("b", sh)), [2, 3, 4], [{"a": 1, "b": 2}, {"a": 1}, {}, None, {"a": 256, "b": 1}]))
    # the operators build new constructs: an operand used twice is not changed by the first use
    hdr = cs.Struct("a" / cs.Byte)
    first = hdr + ("b" / cs.Byte)
    L.append(("(h+b), then h+c<->Struct(a,c)", ({"k": "Opaque", "desc": "h + 'c'/Int16ub after h + 'b'/Byte"}, lambda: hdr + ("c" / cs.Int16ub)), A.Struct(A.Renamed("a", by), A.Renamed("c", sh)), [2, 3, 4],
              [{"a": 1, "c": 2}, {"a": 1, "b": 3, "c": 2}, {"a": 1}]))
    L.append(("h after h+b<->Struct(a)", ({"k": "Opaque", "desc": "h after h + 'b'/Byte"}, lambda: hdr), A.Struct(A.Renamed("a", by)), [0, 1, 2], [{"a": 1}, {"a": 1, "b": 2}, {}]))
    sq = cs.Sequence(cs.Byte)
    first2 = sq >> cs.Byte
    L.append(("(s>>b), then s>>c<->Sequence", ({"k": "Opaque", "desc": "s >> Int16ub after s >> Byte"}, lambda: sq >> cs.Int16ub), A.Sequence(by, sh), [2, 3, 4], [[1, 2], [1, 2, 3], [1]]))
    L.append(("a>>b<->Sequence", ({"k": "Opaque", "desc": "Byte >> Int16ub"}, lambda: cs.Byte >> cs.Int16ub), A.Sequence(by, sh), [2, 3, 4], [[1, 2], [1], [], None, [256, 1]]))
    # only a bare Struct (Sequence) operand is spliced into the sum: a named one, and every other composite, stays one member
    inner = A.Struct(A.Renamed("x", by), A.Renamed("y", by))
    L.append(("'h'/Struct + z<->Struct(h, z)", ({"k": "Opaque", "desc": "'hdr'/Struct(x, y) + 'z'/Byte"}, lambda: ("hdr" / cs.Struct("x" / cs.Byte, "y" / cs.Byte)) + ("z" / cs.Byte)),
              A.Struct(A.Renamed("hdr", inner), A.Renamed("z", by)), [2, 3, 4], [{"hdr": {"x": 1, "y": 2}, "z": 3}, {"x": 1, "y": 2, "z": 3}, {"hdr": {"x": 1}, "z": 3}, None]))
    L.append(("'o'/Optional + z<->Struct(o, z)", ({"k": "Opaque", "desc": "'opt'/Optional(Int16ub) + 'z'/Byte"}, lambda: ("opt" / cs.Optional(cs.Int16ub)) + ("z" / cs.Byte)),
              A.Struct(A.Renamed("opt", A.Optional(sh)), A.Renamed("z", by)), [0, 1, 2, 3, 4], [{"opt": 1, "z": 3}, {"opt": None, "z": 3}, {"z": 3}, {"opt": 70000, "z": 1}]))
    L.append(("z + Sequence<->Struct(z, Sequence)", ({"k": "Opaque", "desc": "'z'/Byte + Sequence(Byte, Byte)"}, lambda: ("z" / cs.Byte) + cs.Sequence(cs.Byte, cs.Byte)),
              A.Struct(A.Renamed("z", by), A.Sequence(by, by)), [2, 3, 4], [{"z": 3}, {"z": 256}, {}]))
    L.append(("'p'/PrefixedArray + z<->Struct(p, z)", ({"k": "Opaque", "desc": "'p'/PrefixedArray(Byte, Byte) + 'z'/Byte"}, lambda: ("p" / cs.PrefixedArray(cs.Byte, cs.Byte)) + ("z" / cs.Byte)),
              A.Struct(A.Renamed("p", A.PrefixedArray(by, by)), A.Renamed("z", by)), [1, 2, 3, 4], [{"p": [1, 2], "z": 3}, {"p": [], "z": 3}, {"count": 1, "items": [1], "z": 3}]))
    L.append(("Select + z<->Struct(Select, z)", ({"k": "Opaque", "desc": "'s'/Select(Int16ub, Byte) + 'z'/Byte"}, lambda: ("s" / cs.Select(cs.Int16ub, cs.Byte)) + ("z" / cs.Byte)),
              A.Struct(A.Renamed("s", A.Select(sh, by)), A.Renamed("z", by)), [1, 2, 3, 4], [{"s": 1, "z": 3}, {"s": 70000, "z": 3}]))
    L.append(("'s'/Sequence >> b<->Sequence(s, b)", ({"k": "Opaque", "desc": "'s'/Sequence(Byte, Byte) >> Int16ub"}, lambda: ("s" / cs.Sequence(cs.Byte, cs.Byte)) >> cs.Int16ub),
              A.Sequence(A.Renamed("s", A.Sequence(by, by)), sh), [3, 4, 5], [[[1, 2], 3], [1, 2, 3], [[1], 3], None]))
    L.append(("Struct >> b<->Sequence(Struct, b)", ({"k": "Opaque", "desc": "Struct('a'/Byte) >> Byte"}, lambda: cs.Struct("a" / cs.Byte) >> cs.Byte),
              A.Sequence(A.Struct(A.Renamed("a", by)), by), [1, 2, 3], [[{"a": 1}, 2], [1, 2], [{"a": 1}]]))
    L.append(("Array >> b<->Sequence(Array, b)", ({"k": "Opaque", "desc": "Byte[2] >> Byte"}, lambda: cs.Byte[2] >> cs.Byte),
              A.Sequence(A.Array(2, by), by), [2, 3, 4], [[[1, 2], 3], [1, 2, 3], [[1], 3]]))
    # the macro and what it stands for, nested, with elements sized by a keyword; interpreted and compiled
    pa_ast = A.Struct(A.Renamed("tag", by), A.Renamed("arr", A.PrefixedArray(by, A.BytesInteger(A.T("_params", "k")))))
    def fs():
        return cs.Struct("tag" / cs.Byte, "arr" / cs.FocusedSeq("items", "count" / cs.Rebuild(cs.Byte, cs.len_(cs.this.items)), "items" / cs.Array(cs.this.count, cs.BytesInteger(cs.this._params.k))))
    pvals = [{"tag": 7, "arr": [1, 2]}, {"tag": 7, "arr": []}, {"tag": 7, "arr": [65535, 0, 1]}]
    L.append(("PrefixedArray<->FocusedSeq expansion (nested, _params)", pa_ast, ({"k": "Opaque", "desc": "Struct(tag, FocusedSeq expansion of PrefixedArray) using _params"}, fs), [1, 2, 4, 6], pvals))
    L.append(("PrefixedArray<->compiled FocusedSeq expansion (nested, _params)", pa_ast, ({"k": "Opaque", "desc": "compiled Struct(tag, FocusedSeq expansion) using _params"}, lambda: fs().compile()), [1, 2, 4, 6], pvals))
    L.append(("PrefixedArray<->compiled PrefixedArray (nested, _params)", pa_ast, ({"k": "Opaque", "desc": "compiled Struct(tag, PrefixedArray) using _params"}, lambda: A.realize(pa_ast).compile()), [1, 2, 4, 6], pvals))
    L.append(("name/x<->Renamed", ({"k": "Opaque", "desc": "Struct('n'/Byte)"}, lambda: cs.Struct("n" / cs.Byte)), ({"k": "Opaque", "desc": "Struct(Renamed(Byte,'n'))"}, lambda: cs.Struct(cs.Renamed(cs.Byte, newname="n"))), [0, 1, 2], [{"n": 1}, {}, {"n": 256}]))
    return L

def side(x):
    "(ast, construct)"
    if isinstance(x, tuple):
        ast, thunk = x
        return dict(ast), thunk()
    return x, A.realize(x)

def run(ctx):
    rng = ctx.rng
    quick = ctx.quick()
    ctx.rule = ("a case is one call (parse of an input, build of a value) run on both sides of a law instance; inputs: all strings over the boundary alphabet of the relevant "
                "lengths +-1 (sampled above 3 bytes); non-trivial = distinct (law instance, input) with at least one side accepting, or both rejecting an out-of-range value")
    nt = 0
    names = set()
    with campaign.Campaign(ctx, "c12", shard_size=1500) as camp:
        for (name, lhs, rhs, lens, vals) in laws(rng, quick):
            try:
                la, lc = side(lhs)
                ra, rc = side(rhs)
            except Exception as e:
                raise RuntimeError("law %s cannot be instantiated: %r" % (name, e))
            names.add(name)
            kws = [{"k": 2}] if "_params" in str(lhs) or "_params" in str(rhs) or "this._params" in str(la) + str(ra) else [{}]
            if kws == [{"k": 2}]:
                kws = [{"k": 2}, {"k": 0}, {"k": 3}]
            for kw in kws:
                inputs = []
                for n in sorted(set(max(0, l + d) for l in lens for d in (-1, 0, 1))):
                    if n <= 2 or (n <= 3 and not quick):
                        inputs += [bytes(t) for t in itertools.product(gen.ALPHABET, repeat=n)]
                    else:
                        inputs += [gen.rbytes(rng, n) for _ in range(10 if quick else 40)]
                if quick and len(inputs) > 60:
                    inputs = rng.sample(inputs, 60)
                # a compiled right-hand side promises what compile() promises: the same results wherever the left-hand side accepts
                clause = "C04.equiv" if "compiled" in name else CLAUSE
                for data in inputs:
                    i1, c1 = camp.parse(la, lc, data, 0, kw)
                    i2, c2 = camp.parse(ra, rc, data, 0, kw)
                    camp.sh.session(clause, [i1, i2], tag=name)
                    nt += 1
                for v in vals:
                    i1, c1 = camp.build(la, lc, v, b"", kw)
                    i2, c2 = camp.build(ra, rc, v, b"", kw)
                    camp.sh.session(clause, [i1, i2], tag=name)
                    nt += 1
                camp.sh.maybe_flush()
        ctx.sample({"laws": sorted(names)})
        vs = camp.validate()
        campaign.judge(ctx, camp, vs, conformance=None, clauses=(CLAUSE, "C04.equiv"))
        ctx.cov["distinct_nontrivial"] = nt
        ctx.cov["law_instances"] = len(names)
