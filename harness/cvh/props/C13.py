"""C13  Constants, validators and label mappings are enforced in both directions.

Universe: Const / OneOf / NoneOf / Check / Enum / FlagsEnum / Mapping over integer, bytes and string members, every one-byte input
and every one-byte value, all label spellings (name, int, "a|b" strings with spaces, dicts with private keys), unknown labels,
unmapped integers; Error placed inside Select / Optional / GreedyRange / Peek.  Decided by trace validation against Sem at the
constrained nodes: acceptance, value and bytes in both directions, and ExplicitError never being absorbed.
"""
import itertools
from .. import ast as A, gen, values as V, campaign, universes as U
from . import common

LEVEL = "model_checking"
KINDS = common.VALUE_KINDS
CLASSES = {"Const", "ExprValidator", "Check", "Enum", "FlagsEnum", "Mapping", "Error", "Select", "GreedyRange", "Peek"}

def run(ctx):
    rng = ctx.rng
    quick = ctx.quick()
    ctx.rule = ("a case is a parse of an input or a build of a value through a constrained construct; one-byte domains are exhausted (all 256 "
                "inputs, all values -2..257); non-trivial = the predicate is false for the value, the label is unknown, or an Error field is reached")
    nprog = 280 if quick else 1500
    nt = 0
    with campaign.Campaign(ctx, "c13", shard_size=1500) as camp:
        for i in range(nprog):
            prog = U.c13_program(rng)
            con = campaign.realizable(prog)
            if con is None:
                continue
            # parse: every first byte, a few tails
            for b0 in range(256) if (i % 4 == 0 or not quick) else rng.sample(range(256), 40):
                data = bytes([b0]) + gen.rbytes(rng, rng.choice([0, 1, 3]))
                camp.parse(prog, con, data, 0, {})
            camp.parse(prog, con, b"", 0, {})
            # the compiled instance enforces the same constraints (generated code has its own tests for labels and constants)
            if i % 3 == 0:
                try:
                    comp = con.compile()
                except Exception:
                    comp = None
                if comp is not None:
                    oprog = {"k": "Opaque", "desc": "compiled"}
                    for b0 in (range(256) if i % 12 == 0 or not quick else rng.sample(range(256), 16)):
                        data = bytes([b0]) + b"\x01\x00"
                        i1, _ = camp.parse(prog, con, data, 0, {})
                        i2, _ = camp.parse(oprog, comp, data, 0, {})
                        camp.sh.session("C04.equiv", [i1, i2])
            # build: domain values, neighbours, labels
            vals = U.c13_values(rng, prog)
            core = prog["subs"][0]["sub"] if prog["k"] == "Struct" and prog["subs"][0].get("name") == "x" else prog
            extra = []
            if core["k"] in ("Const", "OneOf", "NoneOf", "Enum", "FlagsEnum", "Mapping", "ExprValidator"):
                extra = list(range(-2, 258)) if (i % 4 == 0 or not quick) else rng.sample(range(-2, 258), 30)
                extra += [None, "", "one", "two | one", " a|b ", "a|zz", "a|a", "b|a|b", "a|c|b", "c|a", {"a": True, "_p": 1}, {"a": False}, b"A", b"MZ\x00", 0.0, True, False, []]
            if core["k"] == "Enum":
                # a label object that came from another Enum (a str that carries the other mapping's integer): the label counts, not the integer
                import construct as cs
                extra += [cs.EnumIntegerString.new(9, "one"), cs.EnumIntegerString.new(0, "two"), cs.EnumIntegerString.new(1, "nosuch"), cs.EnumIntegerString.new(2, "three")]
            for v in vals:
                camp.build(prog, con, v, b"", {})
            for v in extra:
                vv = {"x": v, "t": 1} if core is not prog else v
                camp.build(prog, con, vv, b"", {})
            camp.sh.maybe_flush()
            if i < 3:
                ctx.sample({"program": prog})
        # a validator placed after a member whose value is made at build time (Default, Rebuild, Const) judges the value that was written, in every scope
        for d, c, op in itertools.product((0, 1, 3, 128), (0, 1, 3, 127), ("==", "!=", "<=", ">")):
            if quick and rng.random() < 0.5:
                continue
            chk = A.Check(A.Bin(op, A.T("v"), A.C(c)))
            for made in (A.Default(A.Alias("Byte"), d), A.Rebuild(A.Alias("Byte"), A.C(d)), A.Rebuild(A.Alias("Byte"), A.T("_params", "k")), A.Const(d, A.Alias("Byte"))):
                kw = {"k": d}
                mem = A.Renamed("v", made)
                for prog, wrap in ((A.FocusedSeq("v", mem, chk), lambda v: v), (A.Struct(mem, chk), lambda v: {"v": v}), (A.Sequence(mem, chk), lambda v: [v, None]),
                                   (A.Struct(A.Renamed("x", A.FocusedSeq("v", mem, chk)), A.Renamed("t", A.Alias("Byte"))), lambda v: {"x": v, "t": 1})):
                    con = campaign.realizable(prog)
                    if con is None:
                        continue
                    for v in (None, d, c, 2):
                        camp.build(prog, con, wrap(v), b"", kw)
                    for b0 in (d, c, 2):
                        camp.parse(prog, con, bytes([b0, 1]), 0, kw)
            camp.sh.maybe_flush()
        # the collection of OneOf / NoneOf may be any container: a bytes literal admits exactly its one-byte substrings for a one-byte member
        import construct as cs
        for name, mk, lst in (("OneOf", cs.OneOf, A.OneOf), ("NoneOf", cs.NoneOf, A.NoneOf)):
            for coll in (b"+-", b"\x00\xff", b"A"):
                oprog = {"k": "Opaque", "desc": "%s(Bytes(1), %r)" % (name, coll)}
                ocon = mk(cs.Bytes(1), coll)
                aprog = lst(A.Bytes(1), [bytes([c]) for c in coll])
                acon = campaign.realizable(aprog)
                for b0 in (range(256) if not quick else sorted(set(list(coll) + [0, 1, 43, 44, 45, 65, 254, 255]))):
                    i1, _ = camp.parse(aprog, acon, bytes([b0]), 0, {})
                    i2, _ = camp.parse(oprog, ocon, bytes([b0]), 0, {})
                    camp.sh.session("C12.equiv", [i1, i2])
                    i1, _ = camp.build(aprog, acon, bytes([b0]), b"", {})
                    i2, _ = camp.build(oprog, ocon, bytes([b0]), b"", {})
                    camp.sh.session("C12.equiv", [i1, i2])
        camp.sh.maybe_flush()
        vs = camp.validate()
        def conf(v, m):
            k = campaign.kind_of(v)
            node_ok = v["exp"]["k"] in CLASSES or v["got"]["k"] in CLASSES or k.startswith("result:")
            # a wrong argument handed to a member is the doing of the adapter around it (label -> integer encoding)
            node_ok = node_ok or (k == "in-arg" and any(n["k"] in CLASSES for n in A.walk(m["prog"])))
            if k in KINDS and node_ok:
                return True
            # ExplicitError must never be absorbed or replaced
            if k in common.ERRCLASS_KINDS and (v["exp"]["err"] == "ExplicitError" or v["got"]["err"] == "ExplicitError"):
                return True
            return False
        campaign.judge(ctx, camp, vs, conformance=conf, clauses=("C04.equiv", "C12.equiv"))
        for cid, m in camp.sh.meta.items():
            if "case" in m and not m["case"]["res"]["ok"]:
                nt += 1
        ctx.cov["distinct_nontrivial"] = nt
