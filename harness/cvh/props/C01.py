"""C01  Build then parse returns the value that was built (symmetry).

Sessions build(v); parse(bytes) are recorded from the real library; TLC evaluates C01Sym (spec/Props.tla) on the
recorded results: whenever the program is sequential and well-formed and the model itself is symmetric on (program,
value) -- which is how membership of v in the value domain is decided --, the recorded parse must succeed and return
the value with the derived members filled in as the specification fills them.  Design level: MC_CAM (theorems Rebuild / Normal)
shows the model is symmetric on an explicit syntactic fragment, and its sessions are replayed into the code.
"""
from .. import ast as A, gen, values as V, campaign, tlc, speccode
from . import common
from .. import universes as U

LEVEL = "model_checking"
CLAUSE = "C01.sym"

def run(ctx):
    rng = ctx.rng
    quick = ctx.quick()
    ctx.rule = ("a case is a session build(v); parse(built bytes) on a random sequential program (depth <= 4, every class of the "
                "grammar incl. bit-level and byte-transforming wrappers) with v drawn from the program's value domain (boundary "
                "integers, empty/maximal strings and arrays, every label; keyword contexts); non-trivial = the premise of C01Sym "
                "held (well-formed program, value in the domain), counted by distinct (program, value)")
    nprog = 500 if quick else 10000
    from .. import universes as U
    progs = [(p, rng.choice([{"k": 2}, {"k": 1}, {"k": 3}])) for p in U.systematic(rng, 0.55 if quick else 1.0)]
    for i in range(nprog):
        kw = rng.choice([{}, {}, {"k": 2}, {"k": 1, "w": 3}])
        progs.append((gen.program(rng, rng.choice([1, 2, 3, 3, 4]), kw), kw))
    with campaign.Campaign(ctx, "c01", shard_size=700) as camp:
        for i, (prog, kw) in enumerate(progs):
            con = campaign.realizable(prog)
            if con is None:
                continue
            for _ in range(5):
                try:
                    v = gen.build_value(rng, prog, kw)
                except Exception:
                    continue
                camp.roundtrip_from_value(prog, con, v, kw, clauses=(CLAUSE,))
            camp.sh.maybe_flush()
            if i < 3:
                ctx.sample({"program": prog})
        for prog, kw, vals in U.fixed_programs():
            con = campaign.realizable(prog)
            for v in vals:
                camp.roundtrip_from_value(prog, con, v, kw, clauses=(CLAUSE,))
        camp.sh.maybe_flush()
        # spec -> code: sessions TLC explores on the model's universe; the value built is the one the specification parsed
        uprogs, ukw, sessions, _ = speccode.explore(ctx, focus="all", part=speccode.part_of(ctx, 16 if quick else 16))
        def on(camp, prog, con, s, idx):
            if idx["build"] and idx["reparse"]:
                camp.sh.session(CLAUSE, [idx["build"], idx["reparse"]])
        speccode.drive(camp, uprogs, ukw, sessions, on)
        vs = camp.validate()
        counts = campaign.judge(ctx, camp, vs, conformance=None, clauses=(CLAUSE,))
        nt = set()
        for v in vs:
            if v.get("why") == CLAUSE and v["st"] in ("ok", "fail"):
                m = camp.sh.meta[v["id"]]
                b = camp.sh.meta[m["calls"][0]]
                nt.add((common_key(b["prog"]), str(b["case"]["arg"]), str(b["case"]["kw"])))
        ctx.cov["distinct_nontrivial"] = len(nt)
        ctx.cov["sessions"] = {"premise_held": counts.get("ok", 0) and sum(1 for v in vs if v.get("why") == CLAUSE and v["st"] == "ok"),
                               "premise_failed": sum(1 for v in vs if v.get("why") == CLAUSE and v["st"] == "na")}

def common_key(prog):
    from ..pipeline import pkey
    return pkey(prog)
