"""C17  Constructs are stateless: results do not depend on call history or entry point.

Design level (TLC, MC_C17 over spec/Session.tla): a pool of constructs sharing members, two threads, all interleavings at construct-boundary granularity of calls
mixing parse / build / sizeof, succeeding and failing: Pure, Repeatable, Frozen; with a memoising member as negative control.
Conformance on the real library, judged by TLC:
 * histories: random sequences of parse / build / sizeof / compile calls over a pool that shares members (module singletons, shared sub-structs, structurally identical
   constructs that differ only in a Python callback); every call is validated against Sem, every repetition of a call against its earlier occurrence (C17Same), and a
   structural digest of the object graphs before / after every call (C17Frozen);
 * schedules: the recording hook doubles as a gate -- each thread blocks at every enter / leave until the controller grants the step -- so chosen interleavings of two
   calls are reproduced exactly; free-running stress with 8 threads; every threaded result against the solo result (C17Same);
 * entry points: parse on bytes / bytearray / memoryview, parse_stream at start offsets, parse_file, build / build_stream / build_file (C17Entry).
"""
import hashlib, io, os, sys, tempfile, threading
from .. import ast as A, gen, values as V, campaign, tracer, universes as U
from . import common

LEVEL = "model_checking"
CLAUSES = ("C17.pure", "C17.entry", "C17.frozen", "C17.offset", "C04.equiv")

def digest(objs):
    "structural digest of the object graphs (attributes recursively; functions by identity)"
    import construct as cs
    seen = {}
    h = hashlib.sha1()
    def walk(o, depth=0):
        if isinstance(o, cs.Construct):
            if id(o) in seen:
                h.update(b"@%d" % seen[id(o)]); return
            seen[id(o)] = len(seen)
            h.update(type(o).__name__.encode())
            for k in sorted(vars(o)):
                if k in ("source", "module", "modulename"):
                    continue
                h.update(k.encode()); walk(vars(o)[k], depth + 1)
        elif isinstance(o, dict):
            h.update(b"{")
            for k, v in list(dict.items(o)):
                h.update(repr(k).encode()); walk(v, depth + 1)
        elif isinstance(o, (list, tuple)):
            h.update(b"[")
            for v in o: walk(v, depth + 1)
        elif isinstance(o, (int, float, str, bytes, bool, type(None))):
            h.update(repr(o).encode())
        elif callable(o):
            h.update(("fn%s" % id(o)).encode())
        elif hasattr(o, "__dict__") and depth < 6:
            h.update(type(o).__name__.encode())
            for k in sorted(vars(o)): 
                h.update(k.encode()); walk(vars(o)[k], depth + 1)
        else:
            h.update(type(o).__name__.encode())
    for o in objs:
        walk(o)
    return h.hexdigest()

class Gate:
    "force an interleaving: event n of the run is granted to thread schedule[n]"
    def __init__(self, schedule, names):
        self.schedule = list(schedule); self.pos = 0
        self.cond = threading.Condition(); self.done = set(); self.names = names
    def __call__(self, ev):
        me = threading.current_thread().name
        if me not in self.names:
            return
        with self.cond:
            while True:
                while self.pos < len(self.schedule) and self.schedule[self.pos] in self.done:
                    self.pos += 1
                if self.pos >= len(self.schedule) or self.schedule[self.pos] == me:
                    break
                if not self.cond.wait(timeout=5):
                    break           # never deadlock the harness: fall back to free running
            self.pos += 1
            self.cond.notify_all()
    def finished(self, name):
        with self.cond:
            self.done.add(name); self.cond.notify_all()

def pool(rng):
    "(ast, kw) constructs sharing members"
    shared = A.Struct(A.Renamed("n", A.Alias("Byte")), A.Renamed("d", A.Bytes(A.T("n"))))
    P = [A.Struct(A.Renamed("h", A.Alias("Int16ub")), A.Renamed("s", shared), A.Renamed("v", A.VarInt)),
         A.Sequence(shared, A.Alias("Byte"), A.Flag),
         A.GreedyRange(shared),
         A.Select(A.Const(b"AB"), shared),
         A.PrefixedArray(A.VarInt, A.Alias("Byte")),
         A.Struct(A.Renamed("a", A.NullTerminated(A.GreedyBytes, consume=False)), A.Renamed("t", A.Alias("Byte")), A.Renamed("r", A.GreedyBytes)),
         A.Struct(A.Renamed("k", A.Bytes(A.T("_params", "k"))), A.Renamed("p", A.Pointer(0, A.Alias("Byte"))), A.Renamed("t", A.Tell)),
         A.BitStruct(A.Renamed("a", A.BitsInteger(3)), A.Renamed("b", A.BitsInteger(13))),
         A.Prefixed(A.Alias("Byte"), A.Struct(A.Renamed("x", A.CString("utf8")), A.Renamed("r", A.RawCopy(A.Alias("Byte"))))),
         A.Struct(A.Renamed("e", A.Enum(A.Alias("Byte"), one=1, two=2)), A.Renamed("f", A.FlagsEnum(A.Alias("Byte"), a=1, b=2))),
         # a relative seek (terminator left in place) inside length-limited regions: the same values at every starting offset
         A.FixedSized(6, A.Sequence(A.NullTerminated(A.GreedyBytes, consume=False), A.GreedyBytes)),
         A.Struct(A.Renamed("n", A.Alias("Byte")), A.Renamed("p", A.Prefixed(A.Alias("Byte"), A.Sequence(A.NullTerminated(A.GreedyBytes, consume=False), A.Alias("Byte")))))]
    # positions counted from the end of a region (negative Pointer, OffsettedEnd), inside regions: the same values at every starting offset
    P += [A.FixedSized(4, A.Struct(A.Renamed("first", A.Alias("Byte")), A.Renamed("last", A.Pointer(-1, A.Alias("Byte"))))),
          A.Struct(A.Renamed("h", A.Alias("Byte")), A.Renamed("b", A.Prefixed(A.Alias("Byte"), A.Struct(A.Renamed("d", A.OffsettedEnd(-1, A.GreedyBytes)), A.Renamed("c", A.Alias("Byte")))))),
          A.FixedSized(5, A.Struct(A.Renamed("a", A.Alias("Byte")), A.Renamed("z", A.Pointer(-2, A.Alias("Int16ub"))), A.Renamed("r", A.OffsettedEnd(-2, A.GreedyBytes))))]
    # bit-level regions of data-dependent length (the streaming wrapper): a call may fail in the middle of a byte, the next one starts clean
    P += [A.Bitwise(A.Struct(A.Renamed("n", A.Alias("Nibble")), A.Renamed("v", A.BitsInteger(A.T("n"))))),
          A.Bitwise(A.Struct(A.Renamed("n", A.Alias("Nibble")), A.Check(A.Bin("<", A.T("n"), A.C(9))), A.Renamed("a", A.Array(A.T("n"), A.Alias("Bit"))), A.Renamed("p", A.Padding(A.Bin("%", A.Bin("-", A.C(12), A.T("n")), A.C(8)))))),
          A.Struct(A.Renamed("h", A.Alias("Byte")), A.Renamed("b", A.Bitwise(A.Struct(A.Renamed("n", A.BitsInteger(3)), A.Renamed("r", A.Array(A.T("n"), A.BitsInteger(3)))))), A.Renamed("t", A.GreedyBytes))]
    for _ in range(4):
        P.append(gen.program(rng, 2, {"k": 2}))
    return P

SOLO = r"""
import sys, json, io
sys.path.insert(0, sys.argv[1]); sys.path.insert(0, sys.argv[2])
import os
os.environ["CONSTRUCT_VERIF_TRACE"] = "1"
from cvh import ast as A, values as V
job = json.load(sys.stdin)
out = []
for prog, op, data in job:
    con = A.realize(prog)
    try:
        if op == "parse":
            st = io.BytesIO(bytes(data)); val = con.parse_stream(st)
            out.append({"ok": True, "v": V.enc(val), "err": "", "p": st.tell(), "path": []})
        else:
            st = io.BytesIO(); con.build_stream(bytes(data), st)
            out.append({"ok": True, "v": V.VBytes(st.getvalue()), "err": "", "p": st.tell(), "path": []})
    except Exception as e:
        out.append({"ok": False, "v": V.VNone(), "err": type(e).__name__, "p": 0, "path": []})
    break       # one call per process: nothing has run before it
print(json.dumps(out))
"""
def solo(prog, op, data):
    "the same call as the only call of a fresh interpreter process: what the result is when there is no history at all"
    import json, subprocess
    from ..check import REPO
    harness = os.path.dirname(os.path.dirname(os.path.dirname(os.path.abspath(__file__))))
    p = subprocess.run([sys.executable, "-c", SOLO, REPO, harness], input=json.dumps([[prog, op, list(data)]]), capture_output=True, text=True, timeout=120)
    return json.loads(p.stdout.strip().splitlines()[-1])[0]

def run(ctx):
    import construct as cs
    rng = ctx.rng
    quick = ctx.quick()
    ctx.rule = ("cases: every call of a random history over a pool of constructs that share members; pairs of identical calls at two points of a history, alone vs inside a forced "
                "two-thread interleaving, alone vs 8 free-running threads; entry-point pairs; non-trivial = a failing call precedes a succeeding one on a shared member, or a schedule "
                "switches threads inside a call")
    common.design_level(ctx, "MC_C17", workers=16)
    from .. import tlc
    out, stats = tlc.run_tlc("MC_C17.tla", "MC_C17.cfg", workers=8, scratch=ctx.scratch, env={"MC_CONTROL": "1"})
    if "violated" not in out:
        raise tlc.MachineryError("MC_C17 negative control: TLC did not find the violation caused by a memoising member")
    ctx.cov["design_level"]["MC_C17_control"] = "violation found with a stateful (memoising) member, as required"
    nt = 0
    tmpdir = tempfile.mkdtemp(prefix="c17_", dir=ctx.scratch)
    with campaign.Campaign(ctx, "c17", shard_size=1500) as camp:
        rec = camp.rec
        for rnd in range(3 if quick else 30):
            progs = pool(rng)
            objs = []
            for p in progs:
                c = campaign.realizable(p)
                if c is not None:
                    objs.append((p, c))
            # structurally identical constructs differing only in a Python callback; compiled instances join the pool
            lam1 = cs.Struct("count" / cs.Rebuild(cs.Byte, lambda ctx: len(ctx["items"])), "tag" / cs.Rebuild(cs.Byte, lambda ctx: 1), "items" / cs.Array(cs.this.count, cs.Byte))
            lam2 = cs.Struct("count" / cs.Rebuild(cs.Byte, lambda ctx: len(ctx["items"])), "tag" / cs.Rebuild(cs.Byte, lambda ctx: 2), "items" / cs.Array(cs.this.count, cs.Byte))
            opq = lambda d: {"k": "Opaque", "desc": d}
            # adapters that rearrange lists (not in the program AST): a failing build must leave no trace on the instance
            slicing = cs.Slicing(cs.Array(4, cs.Byte), 4, 1, 3, empty=0)
            indexing = cs.Indexing(cs.Array(4, cs.Byte), 4, 2, empty=0)
            extra = [(opq("lam1"), lam1), (opq("lam2"), lam2), (opq("slicing"), slicing), (opq("indexing"), indexing)]
            extra_vals = {"slicing": [[2, 3], [7], [2, 3, 4], [], [2, 3], [9, 8]], "indexing": [5, 0, 255, 300, None, 5]}
            allobjs = [c for _, c in objs] + [lam1, lam2, slicing, indexing]
            compiled = {}
            # ---- compile history on structurally identical constructs that differ only in a Python callback:
            #      compile A; use A'; compile B; use A' again
            try:
                ca = lam1.compile()
                v0 = {"items": [7, 8, 9]}
                ia, _ = camp.build(opq("compiled-lam1"), ca, v0, b"", {})
                ip, _ = camp.parse(opq("compiled-lam1"), ca, b"\x02\x05\x06\x07", 0, {})
                iz, _ = camp.sizeof(opq("compiled-lam1"), ca, {})
                before = digest(allobjs + [ca])
                cb = lam2.compile()
                ib, _ = camp.build(opq("compiled-lam2"), cb, v0, b"", {})
                after = digest(allobjs + [ca])
                camp.sh.session("C17.frozen", [ib], x={"before": before, "after": after})
                ja, _ = camp.build(opq("compiled-lam1"), ca, v0, b"", {})
                jp, _ = camp.parse(opq("compiled-lam1"), ca, b"\x02\x05\x06\x07", 0, {})
                jz, _ = camp.sizeof(opq("compiled-lam1"), ca, {})
                camp.sh.session("C17.pure", [ia, ja]); camp.sh.session("C17.pure", [ip, jp]); camp.sh.session("C17.pure", [iz, jz])
                # and against the interpreter it was compiled from
                ii, _ = camp.build(opq("lam1"), lam1, v0, b"", {})
                camp.sh.session("C17.entry", [ii, ja])
                # the instance compiled second is its own construct's, not the first one's (identical generated source)
                for v1 in (v0, {"items": [1, 2]}, {"items": []}):
                    ib1, _ = camp.build(opq("compiled-lam2"), cb, v1, b"", {})
                    ib2, _ = camp.build(opq("lam2"), lam2, v1, b"", {})
                    camp.sh.session("C04.equiv", [ib2, ib1])
                nt += 1
            except Exception:
                pass
            # ---- whole-byte rotations of the same group by different amounts, parse and build (nothing learnt from one call serves another)
            for g, amounts in ((3, (8, 16)), (4, (8, 24)), (5, (-16, 8))):
                rp = [A.FixedSized(2 * g, A.ProcessRotateLeft(a, g, A.GreedyBytes)) for a in amounts]
                rc = [campaign.realizable(p) for p in rp]
                data = bytes(range(1, 2 * g + 1))
                first = [camp.parse(rp[0], rc[0], data, 0, {})[0], camp.build(rp[0], rc[0], data, b"", {})[0]]
                for q in (1, 0):
                    i1, _ = camp.parse(rp[q], rc[q], data, 0, {})
                    i2, _ = camp.build(rp[q], rc[q], data, b"", {})
                    if q == 0:
                        camp.sh.session("C17.pure", [first[0], i1]); camp.sh.session("C17.pure", [first[1], i2])
                    if rnd == 0:
                        # ... and equals what the call returns as the only call of a fresh process
                        for idx, op in ((i1, "parse"), (i2, "build")):
                            res = solo(rp[q], op, data)
                            j = camp.sh.add(opq("solo"), {"op": op, "events": [], "res": res}, {}, data if op == "parse" else b"", 0, None, None, "solo")
                            camp.sh.session("C17.entry", [j, idx])
                nt += 1
            # ---- a build that fails after its payload was partly written, between two identical ones (length-prefixed regions keep no buffer)
            pp = A.Prefixed(A.Alias("Byte"), A.Struct(A.Renamed("a", A.Alias("Byte")), A.Renamed("b", A.Alias("Int16ub"))))
            pc = campaign.realizable(pp)
            for good, bad in (({"a": 1, "b": 0x0203}, {"a": 0xEE}), ({"a": 1, "b": 2}, {"a": 5, "b": 70000})):
                i1, _ = camp.build(pp, pc, good, b"", {})
                i2, _ = camp.build(pp, pc, bad, b"", {})
                i3, _ = camp.build(pp, pc, good, b"", {})
                camp.sh.session("C17.pure", [i1, i3])
            # ---- bit-level regions of data-dependent length: a call that fails inside a byte, between two identical good ones (parse and build)
            NN = A.T("n")
            for bp, goodd, badd, goodv, badv in (
                    (A.Bitwise(A.Struct(A.Renamed("n", A.Alias("Nibble")), A.Renamed("v", A.BitsInteger(NN)))), b"\x4a", b"\x30", {"n": 4, "v": 9}, {"n": 3, "v": 5}),
                    (A.Bitwise(A.Struct(A.Renamed("n", A.Alias("Nibble")), A.Check(A.Bin("<", NN, A.C(9))), A.Renamed("v", A.BitsInteger(4)))), b"\x4a", b"\xfa", {"n": 4, "v": 9}, {"n": 12, "v": 1}),
                    (A.Struct(A.Renamed("h", A.Alias("Byte")), A.Renamed("b", A.Bitwise(A.Struct(A.Renamed("n", A.BitsInteger(2)), A.Renamed("r", A.Array(NN, A.BitsInteger(3)))))), A.Renamed("t", A.Alias("Byte"))),
                     b"\x01\x91\x07", b"\x01\xff\xff\x07", {"h": 1, "b": {"n": 2, "r": [1, 1]}, "t": 7}, {"h": 1, "b": {"n": 1, "r": [1]}, "t": 7}),
                    (A.Bitwise(A.Struct(A.Renamed("a", A.Alias("Nibble")), A.Renamed("v", A.Bytewise(A.VarInt)), A.Renamed("b", A.Alias("Nibble")))), b"\x10\x52", b"\x10\x50", {"a": 1, "v": 5, "b": 2}, {"a": 1, "v": 5})):
                bc = campaign.realizable(bp)
                if bc is None:
                    continue
                i1, _ = camp.parse(bp, bc, goodd, 0, {})
                i2, _ = camp.parse(bp, bc, badd, 0, {})
                i3, _ = camp.parse(bp, bc, goodd, 0, {})
                j1, _ = camp.build(bp, bc, goodv, b"", {})
                j2, _ = camp.build(bp, bc, badv, b"", {})
                j3, _ = camp.build(bp, bc, goodv, b"", {})
                i4, _ = camp.parse(bp, bc, goodd, 0, {})
                camp.sh.session("C17.pure", [i1, i3]); camp.sh.session("C17.pure", [j1, j3]); camp.sh.session("C17.pure", [i1, i4])
                nt += 1
            # ---- arguments that are equal to earlier ones but of another type (5.0 after 5, True after 1): what a call does with them
            #      does not depend on what was built before
            for bj, bp in enumerate((A.BitStruct(A.Renamed("a", A.BitsInteger(8)), A.Renamed("b", A.BitsInteger(8, signed=True))),
                       A.Bitwise(A.Struct(A.Renamed("a", A.BitsInteger(A.T("_params", "w"))), A.Renamed("b", A.BitsInteger(8, signed=True)))),
                       A.Struct(A.Renamed("a", A.BytesInteger(2)), A.Renamed("b", A.Alias("Int8sb"))))):
                bc = campaign.realizable(bp)
                if bc is None:
                    continue
                try:
                    comp = bc.compile()
                except Exception:
                    comp = None
                for cj, (po, co) in enumerate(((bp, bc),) + (((opq("compiled twin"), comp),) if comp is not None else ())):
                    fresh = 40 + 20 * bj + 7 * cj + rnd        # a value no earlier call of this process has put into a field of this width
                    for odd, plain in (({"a": fresh, "b": -(fresh % 100)}, {"a": fresh, "b": -(fresh % 100)}), ({"a": 201.0, "b": -3}, {"a": 201, "b": -3}), ({"a": True, "b": 1}, {"a": 1, "b": 1}), ({"a": 5, "b": -3.0}, {"a": 5, "b": -3})):
                        for kw in ({"w": 8.0}, {"w": 8}):
                            i1, _ = camp.build(po, co, odd, b"", kw)
                            i2, _ = camp.build(po, co, plain, b"", {"w": 8})
                            i3, _ = camp.build(po, co, odd, b"", kw)
                            camp.sh.session("C17.pure", [i1, i3])
                nt += 1
            # ---- signed and unsigned bit fields of the same narrow width: what one accepted says nothing about the other
            for w in (3, 4, 7):
                sp = A.BitStruct(A.Renamed("a", A.BitsInteger(w, signed=True)), A.Renamed("b", A.BitsInteger(8 - w)))
                up = A.BitStruct(A.Renamed("a", A.BitsInteger(w)), A.Renamed("b", A.BitsInteger(8 - w)))
                sc, uc = campaign.realizable(sp), campaign.realizable(up)
                big = (1 << w) - 1
                for v in ({"a": big, "b": 0}, {"a": 1 << (w - 1), "b": 1}):
                    i1, _ = camp.build(sp, sc, v, b"", {})
                    i2, _ = camp.build(up, uc, v, b"", {})
                    i3, _ = camp.build(sp, sc, v, b"", {})
                    i4, _ = camp.build(sp, sc, {"a": v["a"] - (1 << w), "b": v["b"]}, b"", {})
                    i5, _ = camp.build(up, uc, v, b"", {})
                    i6, _ = camp.build(sp, sc, v, b"", {})
                    camp.sh.session("C17.pure", [i1, i3]); camp.sh.session("C17.pure", [i1, i6]); camp.sh.session("C17.pure", [i2, i5])
                nt += 1
            # ---- a failing build between two identical ones, on the list adapters
            for (po, co), good, bad in (((opq("slicing"), slicing), [2, 3], [7]), ((opq("indexing"), indexing), 5, None)):
                b0 = digest(allobjs)
                i1, _ = camp.build(po, co, good, b"", {})
                i2, _ = camp.build(po, co, bad, b"", {})
                i3, _ = camp.build(po, co, good, b"", {})
                i4, _ = camp.parse(po, co, b"\x01\x02\x03\x04", 0, {})
                camp.sh.session("C17.pure", [i1, i3])
                camp.sh.session("C17.frozen", [i3], x={"before": b0, "after": digest(allobjs)})
                nt += 1
            # ---- history
            calls = []          # (key, index)
            seen = {}
            inputs = {}
            for step in range(60 if quick else 200):
                r = rng.random()
                if r < 0.1:
                    # compile something (also a lam twin): later calls on earlier compiled instances must not change
                    which = rng.choice(["lam1", "lam2"] + list(range(len(objs))))
                    target = lam1 if which == "lam1" else lam2 if which == "lam2" else objs[which][1]
                    before = digest(allobjs)
                    try:
                        comp = target.compile()
                        compiled[which] = comp
                    except Exception:
                        comp = None
                    after = digest(allobjs)
                    i0 = camp.sh.add(opq("compile"), {"op": "sizeof", "events": [], "res": {"ok": comp is not None, "v": V.VNone(), "err": "", "p": 0, "path": []}}, {}, b"", 0, None, None, "compile")
                    camp.sh.session("C17.frozen", [i0], x={"before": before, "after": after})
                    continue
                src = rng.random()
                if src < 0.15 and compiled:
                    which = rng.choice(list(compiled))
                    prog, con, name = opq("compiled-%s" % which), compiled[which], "compiled-%s" % which
                elif src < 0.3:
                    prog, con = rng.choice(extra); name = prog["desc"]
                else:
                    j = rng.randrange(len(objs)); prog, con = objs[j]; name = "p%d" % j
                kw = {"k": 2}
                op = rng.choice(["parse", "parse", "build", "sizeof"])
                before = digest(allobjs)
                if op == "parse":
                    pool_in = inputs.setdefault(name, [gen.random_input(rng, 8) for _ in range(3)])
                    data = rng.choice(pool_in)
                    st = rng.choice([0, 0, 1])
                    idx, call = camp.parse(prog, con, b"\xee" * st + data, st, kw)
                    key = (name, "parse", data, st)
                    if call["res"]["ok"] and rng.random() < 0.3:
                        try:
                            pool_in.append(con.build(V.dec(call["res"]["v"]), **kw))
                        except Exception:
                            pass
                elif op == "build":
                    if name.startswith("lam") or name.startswith("compiled-lam"):
                        v = {"items": [7, 8, 9][: rng.choice([1, 2, 3])]}
                    elif name in extra_vals:
                        v = rng.choice(extra_vals[name])
                    elif prog.get("k") == "Opaque":
                        which = int(name.split("-p")[-1]) if "-p" in name else None
                        try:
                            v = gen.build_value(random_rng(rng), objs[int(name.split("-")[1])][0], kw) if name.startswith("compiled-") and name.split("-")[1].isdigit() else None
                        except Exception:
                            v = None
                    else:
                        vr = random_rng(rng)
                        try:
                            v = gen.build_value(vr, prog, kw)
                        except Exception:
                            v = None
                    idx, call = camp.build(prog, con, v, b"", kw)
                    key = (name, "build", repr(V.enc(v)), 0)
                else:
                    idx, call = camp.sizeof(prog, con, kw)
                    key = (name, "sizeof", "", 0)
                after = digest(allobjs)
                camp.sh.session("C17.frozen", [idx], x={"before": before, "after": after})
                if key in seen:
                    camp.sh.session("C17.pure", [seen[key][0], idx])
                    if seen[key][1]:
                        nt += 1
                else:
                    seen[key] = (idx, False)
                # a failure on a shared member in between makes the next repetition non-trivial
                if not call["res"]["ok"]:
                    for k2 in seen:
                        seen[k2] = (seen[k2][0], True)
            camp.sh.flush()
            # ---- forced interleavings of two calls on constructs sharing members
            for trial in range(25 if quick else 300):
                (p1, c1), (p2, c2) = rng.choice(objs), rng.choice(objs)
                d1, d2 = gen.random_input(rng, 8), gen.random_input(rng, 8)
                kw = {"k": 2}
                i1, s1 = camp.parse(p1, c1, d1, 0, kw)
                i2, s2 = camp.parse(p2, c2, d2, 0, kw)
                n1, n2 = len(s1["events"]), len(s2["events"])
                sched = ["T1"] * n1 + ["T2"] * n2
                rng.shuffle(sched)
                gate = Gate(sched, {"T1", "T2"})
                rec.gate = gate
                results = {}
                def work(name, con, data):
                    try:
                        results[name] = tracer.run_parse(rec, con, data, 0, kw)
                    finally:
                        gate.finished(name)
                t1 = threading.Thread(target=work, args=("T1", c1, d1), name="T1")
                t2 = threading.Thread(target=work, args=("T2", c2, d2), name="T2")
                t1.start(); t2.start(); t1.join(30); t2.join(30)
                rec.gate = None
                if "T1" in results and "T2" in results:
                    j1 = camp.sh.add(p1, results["T1"], kw, d1, 0, None, None, "sched")
                    j2 = camp.sh.add(p2, results["T2"], kw, d2, 0, None, None, "sched")
                    camp.sh.session("C17.pure", [i1, j1]); camp.sh.session("C17.pure", [i2, j2])
                    switches = sum(1 for a, b in zip(sched, sched[1:]) if a != b)
                    if switches > 1:
                        nt += 1
                camp.sh.maybe_flush()
            # ---- free-running stress: 8 threads on the same constructs
            old = sys.getswitchinterval()
            sys.setswitchinterval(1e-6)
            try:
                for trial in range(4 if quick else 40):
                    p, c = rng.choice(objs)
                    data = gen.random_input(rng, 8)
                    kw = {"k": 2}
                    i0, s0 = camp.parse(p, c, data, 0, kw)
                    results = {}
                    def work2(name):
                        results[name] = tracer.run_parse(rec, c, data, 0, kw)
                    ths = [threading.Thread(target=work2, args=("W%d" % q,), name="W%d" % q) for q in range(8)]
                    for t in ths: t.start()
                    for t in ths: t.join(30)
                    for name, r in results.items():
                        j = camp.sh.add(p, r, kw, data, 0, None, None, "stress")
                        camp.sh.session("C17.pure", [i0, j])
                    camp.sh.maybe_flush()
            finally:
                sys.setswitchinterval(old)
            # ---- entry points
            for p, c in objs:
                kw = {"k": 2}
                for data in [gen.random_input(rng, 8) for _ in range(2)]:
                    try:
                        v = gen.build_value(random_rng(rng), p, kw)
                        b = c.build(v, **kw)
                        datas = [data, b]
                    except Exception:
                        v, datas = None, [data]
                    for d in datas:
                        i0, _ = camp.parse(p, c, d, 0, kw)
                        def viaparse(x):
                            ok, val, err = tracer._outcome(lambda: c.parse(x, **kw))
                            return {"op": "parse", "events": [], "res": {"ok": ok, "v": V.enc(val) if ok else V.VNone(), "err": err, "p": 0, "path": []}}
                        for variant in (bytes(d), bytearray(d), memoryview(d)):
                            j = camp.sh.add(opq("entry"), viaparse(variant), kw, d, 0, None, None, "entry")
                            camp.sh.session("C17.entry", [i0, j])
                        for st in (1, 3):
                            j, _ = camp.parse(p, c, b"\xee" * st + d, st, kw)
                            camp.sh.session("C17.offset", [i0, j])
                        fn = os.path.join(tmpdir, "in.bin")
                        with open(fn, "wb") as f: f.write(d)
                        ok, val, err = tracer._outcome(lambda: c.parse_file(fn, **kw))
                        j = camp.sh.add(opq("entry"), {"op": "parse", "events": [], "res": {"ok": ok, "v": V.enc(val) if ok else V.VNone(), "err": err, "p": 0, "path": []}}, kw, d, 0, None, None, "entry")
                        camp.sh.session("C17.entry", [i0, j])
                    if v is not None:
                        i0, _ = camp.build(p, c, v, b"", kw)
                        ok, val, err = tracer._outcome(lambda: c.build(v, **kw))
                        j = camp.sh.add(opq("entry"), {"op": "build", "events": [], "res": {"ok": ok, "v": V.VBytes(val) if ok else V.VNone(), "err": err, "p": 0, "path": []}}, kw, b"", 0, V.enc(v), None, "entry")
                        camp.sh.session("C17.entry", [i0, j])
                        fn = os.path.join(tmpdir, "out.bin")
                        ok, val, err = tracer._outcome(lambda: (c.build_file(v, fn, **kw), open(fn, "rb").read())[1])
                        j = camp.sh.add(opq("entry"), {"op": "build", "events": [], "res": {"ok": ok, "v": V.VBytes(val) if ok else V.VNone(), "err": err, "p": 0, "path": []}}, kw, b"", 0, V.enc(v), None, "entry")
                        camp.sh.session("C17.entry", [i0, j])
                camp.sh.maybe_flush()
            # ... and builds that go back into what is already written (a header slot filled in through a Pointer, with a digest over it): the same bytes
            # whether the target is the bytes returned by build(), a caller's BytesIO or a file
            if rnd == 0:
                import zlib
                for hdr, hv in ((cs.Int16ub, 0x0102), (cs.Struct("a" / cs.Byte, "b" / cs.Byte), {"a": 3, "b": 4})):
                    fmt = cs.Struct("at" / cs.Tell, cs.Padding(2), "body" / cs.Bytes(3), "hdr" / cs.Pointer(cs.this.at, cs.RawCopy(hdr)),
                                    "chk" / cs.Checksum(cs.Int32ub, lambda d: zlib.crc32(d) & 0xffffffff, cs.this.hdr.data), "trailer" / cs.Const(b"END"))
                    v = {"body": b"abc", "hdr": {"value": hv}}
                    outs = []
                    for how in ("build", "stream", "file", "stream-prefilled"):
                        def run():
                            if how == "build":
                                return fmt.build(v)
                            if how == "stream":
                                st = io.BytesIO(); fmt.build_stream(v, st); return st.getvalue()
                            if how == "stream-prefilled":
                                st = io.BytesIO(b"\x99" * 16); fmt.build_stream(v, st); return st.getvalue()[:st.tell()]
                            fn = os.path.join(tmpdir, "out2.bin")
                            fmt.build_file(v, fn)
                            return open(fn, "rb").read()
                        ok, val, err = tracer._outcome(run)
                        outs.append(camp.sh.add(opq("entry:" + how), {"op": "build", "events": [], "res": {"ok": ok, "v": V.VBytes(val) if ok else V.VNone(), "err": err, "p": 0, "path": []}}, {}, b"", 0, V.VNone(), None, "entry"))
                    for j in outs[1:]:
                        camp.sh.session("C17.entry", [outs[0], j])
                    nt += 1
        vs = camp.validate()
        campaign.judge(ctx, camp, vs, conformance=None, clauses=CLAUSES)
        ctx.cov["distinct_nontrivial"] = nt
    ctx.assumptions.append("CPython serialises byte-code: interleavings are forced at construct-boundary granularity; a race inside a single C-level call is out of reach")

def random_rng(rng):
    import random
    return random.Random(rng.randrange(1 << 30))
