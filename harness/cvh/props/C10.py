"""C10  Bit-level fields are packed MSB-first across byte boundaries on both code paths.

Universe: partitions of 8..32 bits into fields of width 1..24 with signed / swapped flags, Flag and Padding members, nested Struct / Array and
Bytewise islands; every member list is built twice -- with a statically known size (Bitwise takes Transformed: the region is pre-read) and with one
width taken from a keyword (sizeof fails at construction, Bitwise takes Restreamed: the region is streamed) -- plus the public Transformed / Restreamed
classes directly.  Judged by TLC: C10BitRef (built bytes = the big-endian integer made of the fields' two's-complement patterns, native integer
arithmetic), C10.paths (both paths agree on bytes and values), and trace validation of both paths against Sem/Streams (RestreamedBytesIO buffer machine).
"""
import itertools
from .. import ast as A, gen, values as V, campaign
from . import common

LEVEL = "model_checking"
CLAUSES = ("C10.bitref", "C10.paths")

def partitions(rng, total, maxw=12):
    ws = []
    left = total
    while left > 0:
        w = min(left, rng.choice([1, 1, 2, 3, 4, 5, 7, 8, 9, 12, 16, 24] if maxw <= 12 else [1, 1, 2, 3, 4, 5, 7, 8, 9, 12, 16, 24]))
        ws.append(w); left -= w
    return ws

def field(rng, w, dyn=False):
    r = rng.random()
    if w == 1 and r < 0.25: return A.Flag, "flag"
    if r < 0.12: return A.Padding(w), "pad"
    signed = rng.random() < 0.35
    swapped = w % 8 == 0 and rng.random() < 0.45
    return A.BitsInteger(A.T("_params", "w") if dyn else w, signed=signed, swapped=swapped), ("s" if signed else "u")

def field_values(rng, kind, w, exhaustive):
    if kind == "flag": return [True, False]
    if kind == "pad": return [None]
    lo, hi = (-(1 << (w - 1)), (1 << (w - 1)) - 1) if kind == "s" else (0, (1 << w) - 1)
    if exhaustive and w <= 4: return list(range(lo, hi + 1))
    return sorted({lo, hi, 0, 1 if hi >= 1 else 0, -1 if lo < 0 else 0, lo + 1 if lo + 1 <= hi else lo, hi - 1 if hi - 1 >= lo else hi, rng.randint(lo, hi), rng.randint(lo, hi)})

def run(ctx):
    rng = ctx.rng
    quick = ctx.quick()
    ctx.rule = ("a case is a build of a dict of field values (all combinations for regions <= 16 bits with narrow fields, boundary + random otherwise) through a bit-level "
                "region, on the pre-read and on the streaming path, and the parse of the built bytes and of random bytes; non-trivial = some field crosses a byte boundary")
    nlay = 260 if quick else 4000
    nt = 0
    with campaign.Campaign(ctx, "c10", shard_size=1500) as camp:
        for i in range(nlay):
            total = rng.choice([8, 8, 16, 16, 16, 24, 24, 32] if quick else [8, 16, 16, 24, 24, 32, 40, 48, 64])
            ws = partitions(rng, total, 12 if quick else 24)
            dyn_i = rng.randrange(len(ws))
            names = "abcdefghijklmnopqrstuvwx"
            mem_static, mem_dyn, kinds = [], [], []
            for j, w in enumerate(ws):
                f, kind = field(rng, w)
                kinds.append(kind)
                fd = f
                if j == dyn_i and kind in ("s", "u"):
                    fd = dict(f, len=A.T("_params", "w"))
                mem_static.append(A.Renamed(names[j], f)); mem_dyn.append(A.Renamed(names[j], fd))
            if kinds[dyn_i] not in ("s", "u"):
                continue
            style = rng.randrange(4)
            if style == 0:
                ps, pd = A.Bitwise(A.Struct(*mem_static)), A.Bitwise(A.Struct(*mem_dyn))
            elif style == 1:
                ps, pd = A.BitStruct(*mem_static), A.BitStruct(*mem_dyn)
            elif style == 2:
                ps = A.Transformed(A.Struct(*mem_static), "bytes2bits", total // 8, "bits2bytes", total // 8)
                pd = A.Restreamed(A.Struct(*mem_static), "bytes2bits", 1, "bits2bytes", 8, "div8")
            else:
                # nested struct / array / Bytewise island inside the region
                island = A.Renamed("z", A.Bytewise(rng.choice([A.Bytes(1), A.Alias("Byte"), A.Alias("Int16ul")])))
                isz = 16 if island["sub"]["sub"].get("name") == "Int16ul" else 8
                inner = A.Renamed("y", A.Struct(*mem_static[: max(1, len(mem_static) // 2)]))
                rest = mem_static[max(1, len(mem_static) // 2):]
                arr = A.Renamed("r", A.Array(2, A.BitsInteger(4)))
                ps = A.Bitwise(A.Struct(inner, island, *rest, arr))
                pd = A.Bitwise(A.Struct(A.Renamed("y", A.Struct(*mem_dyn[: max(1, len(mem_dyn) // 2)])), island, *mem_dyn[max(1, len(mem_dyn) // 2):], arr)) if dyn_i < max(1, len(mem_dyn) // 2) or True else ps
            cs_, cd_ = campaign.realizable(ps), campaign.realizable(pd)
            if cs_ is None or cd_ is None:
                continue
            kw = {"w": ws[dyn_i]}
            crosses = any((sum(ws[:j]) % 8) + ws[j] > 8 for j in range(len(ws)))
            # values
            doms = [field_values(rng, k, w, total <= 16) for k, w in zip(kinds, ws)]
            combos = list(itertools.product(*doms)) if total <= 16 and len(list(itertools.islice(itertools.product(*doms), 400))) < 400 else \
                     [tuple(rng.choice(d) for d in doms) for _ in range(14 if quick else 40)]
            if quick and len(combos) > 60:
                combos = rng.sample(combos, 60)
            for combo in combos:
                obj = {names[j]: v for j, v in enumerate(combo) if v is not None}
                if style == 3:
                    half = max(1, len(ws) // 2)
                    obj = dict({k: v for k, v in obj.items() if names.index(k) >= half}, y={k: v for k, v in obj.items() if names.index(k) < half},
                               z=(b"\x5a" if isz == 8 and ps["sub"]["subs"][1]["sub"]["sub"]["k"] == "Bytes" else 0x1234 if isz == 16 else 0x5a), r=[rng.randrange(16), rng.randrange(16)])
                ib1, b1 = camp.build(ps, cs_, obj, b"", kw)
                ib2, b2 = camp.build(pd, cd_, obj, b"", kw)
                camp.sh.session("C10.paths", [ib1, ib2])
                if style in (0, 1):
                    camp.sh.session("C10.bitref", [ib1])
                    camp.sh.session("C10.bitref", [ib2])
                if crosses:
                    nt += 1
                if b1["res"]["ok"] and rng.random() < 0.5:
                    data = bytes(b1["res"]["v"]["b"])
                    ip1, p1 = camp.parse(ps, cs_, data, 0, kw)
                    ip2, p2 = camp.parse(pd, cd_, data, 0, kw)
                    camp.sh.session("C10.paths", [ip1, ip2])
            for _ in range(4):
                n = (total + (isz if style == 3 else 0) + (8 if style == 3 else 0)) // 8
                data = gen.rbytes(rng, n + rng.choice([0, 0, 0, 1, -1]) if n > 0 else 0)
                st = rng.choice([0, 0, 1])
                ip1, p1 = camp.parse(ps, cs_, b"\xee" * st + data, st, kw)
                ip2, p2 = camp.parse(pd, cd_, b"\xee" * st + data, st, kw)
                camp.sh.session("C10.paths", [ip1, ip2])
            camp.sh.maybe_flush()
            if i < 3:
                ctx.sample({"static": ps, "streaming": pd, "kw": kw})
        # members that measure (Aligned, Padded around a member) or probe (Optional, GreedyRange) inside a region, on both paths:
        # the streaming wrapper's position and its behaviour at the end of the data are part of what such members see
        W = A.T("_params", "w")
        def shapes(w):
            return [([("x", A.BitsInteger(w)), ("y", A.Aligned(8, A.BitsInteger(3))), ("z", A.Alias("Octet"))], {"x": 200, "y": 5, "z": 17}, 8),
                    ([("x", A.Alias("Nibble")), ("y", A.Padded(12, A.Alias("Octet"))), ("z", A.BitsInteger(w))], {"x": 9, "y": 129, "z": 3}, 8),
                    ([("x", A.BitsInteger(w)), ("y", A.Aligned(16, A.Alias("Octet")))], {"x": 3, "y": 255}, 8),
                    ([("x", A.BitsInteger(w)), ("y", A.Aligned(16, A.Struct(A.Renamed("k", A.Alias("Octet")), A.Renamed("e", A.If(A.Bin("==", A.T("k"), A.C(255)), A.Alias("Octet"))))))], {"x": 1, "y": {"k": 3, "e": None}}, 8),
                    ([("a", A.BitsInteger(w)), ("o", A.Optional(A.BitsInteger(16))), ("b", A.Alias("Nibble"))], {"a": 5, "o": None, "b": 6}, 4),
                    ([("a", A.BitsInteger(w)), ("o", A.Optional(A.BitsInteger(16))), ("b", A.Alias("Nibble"))], {"a": 5, "o": 0x1234, "b": 6}, 4),
                    ([("a", A.BitsInteger(w)), ("z", A.Bytewise(A.Aligned(2, A.Alias("Byte")))), ("b", A.Alias("Nibble"))], {"a": 5, "z": 7, "b": 6}, 4)]
        for idx in range(len(shapes(8))):
            w = shapes(8)[idx][2]
            mem_s, val, _ = shapes(w)[idx]
            mem_d, _, _ = shapes(W)[idx]
            ps = A.Bitwise(A.Struct(*[A.Renamed(nm, m) for nm, m in mem_s]))
            pd = A.Bitwise(A.Struct(*[A.Renamed(nm, m) for nm, m in mem_d]))
            cs_, cd_ = campaign.realizable(ps), campaign.realizable(pd)
            if cs_ is None or cd_ is None:
                continue
            kw = {"w": w}
            ib1, b1 = camp.build(ps, cs_, val, b"", kw)
            ib2, b2 = camp.build(pd, cd_, val, b"", kw)
            camp.sh.session("C10.paths", [ib1, ib2])
            datas = [bytes(b1["res"]["v"]["b"])] if b1["res"]["ok"] else []
            datas += [b"\x56", b"\x51\x23\x46", b"\xff\x00\x81", b"\x03\x00", b"\xff\x07\x00", b"\x10\x00\x00\x00"]
            for data in datas:
                ip1, p1 = camp.parse(ps, cs_, data, 0, kw)
                ip2, p2 = camp.parse(pd, cd_, data, 0, kw)
                camp.sh.session("C10.paths", [ip1, ip2])
                nt += 1
        # probes that exist on the streaming path only (no static size): judged against the specification
        for prog in (A.Bitwise(A.Struct(A.Renamed("r", A.GreedyRange(A.BitsInteger(12))), A.Renamed("n", A.Alias("Nibble")))),
                     A.Bitwise(A.Struct(A.Renamed("a", A.Alias("Nibble")), A.Renamed("o", A.Optional(A.BitsInteger(16))), A.Renamed("b", A.Alias("Nibble")))),
                     A.Bitwise(A.Struct(A.Renamed("a", A.Alias("Nibble")), A.Renamed("rest", A.GreedyRange(A.Alias("Nibble"))))),
                     # a greedy byte-level island that starts inside a byte: it takes the whole bytes there are and leaves the closing bits
                     A.Bitwise(A.Struct(A.Renamed("a", A.Alias("Nibble")), A.Renamed("rest", A.Bytewise(A.GreedyBytes)), A.Renamed("b", A.Alias("Nibble")))),
                     A.Bitwise(A.Struct(A.Renamed("a", A.BitsInteger(3)), A.Renamed("rest", A.Bytewise(A.GreedyRange(A.Alias("Byte")))), A.Renamed("b", A.BitsInteger(5))))):
            con = campaign.realizable(prog)
            for data in (b"", b"\x12", b"\x12\x34", b"\x12\x34\x56", b"\xff\xff\xff\xff", b"\x00\x00\x00"):
                camp.parse(prog, con, data, 0, {})
                nt += 1
        vs = camp.validate()
        campaign.judge(ctx, camp, vs, conformance=lambda v, m: campaign.kind_of(v) in common.VALUE_KINDS, clauses=CLAUSES)
        ctx.cov["distinct_nontrivial"] = nt
