"""C02  Re-encoding parsed data is canonical and stable.

Sessions p1 = parse(b); b2 = build(p1); p2 = parse(b2); b3 = build(p2) (C02Canon) and build(v); parse; build (C02Self)
are recorded from the real library on random, boundary-biased, canonical and mutated inputs; TLC evaluates the clauses
of spec/Props.tla on the recorded results.  The parse result is fed back as returned.
"""
import itertools
from .. import ast as A, gen, values as V, campaign, tlc, speccode
from . import common
from .. import universes as U

LEVEL = "model_checking"
CLAUSES = ("C02.canon", "C02.self", "C02.stable")

def run(ctx):
    rng = ctx.rng
    quick = ctx.quick()
    ctx.rule = ("a case is a four-call session parse/build/parse/build from an arbitrary input, or build/parse/build from a value, on a random "
                "sequential well-formed program; inputs: random over the boundary alphabet, canonical encodings and their bit flips, insertions, "
                "deletions, truncations; non-trivial = first parse accepted (premise held), counted by distinct (program, input)")
    nprog = 300 if quick else 7000
    from .. import universes as U
    progs = [(p, rng.choice([{"k": 2}, {"k": 1}, {"k": 3}])) for p in U.systematic(rng, 0.25 if quick else 1.0)]
    for i in range(nprog):
        kw = rng.choice([{}, {}, {"k": 2}, {"k": 1, "w": 3}])
        progs.append((gen.program(rng, rng.choice([1, 2, 3, 3, 4]), kw), kw))
    with campaign.Campaign(ctx, "c02", shard_size=700) as camp:
        for i, (prog, kw) in enumerate(progs):
            con = campaign.realizable(prog)
            if con is None:
                continue
            common.standard_program_calls(camp, rng, prog, con, kw, nvalues=3, ninputs=4, clauses=CLAUSES, offsets=False, maxlen=8)
            if i < 3:
                ctx.sample({"program": prog})
        # bit-level regions of signed fields: every pattern of one-byte regions, the boundary patterns of two-byte ones
        S = lambda w, sw=False: A.BitsInteger(w, signed=True, swapped=sw)
        bitprogs = [A.BitStruct(A.Renamed("a", S(3)), A.Renamed("b", S(5))), A.BitStruct(A.Renamed("a", S(1)), A.Renamed("b", S(7))),
                    A.Bitwise(S(8)), A.BitStruct(A.Renamed("a", S(4)), A.Renamed("b", A.BitsInteger(4))),
                    A.BitStruct(A.Renamed("a", S(16, True))), A.BitStruct(A.Renamed("a", S(9)), A.Renamed("b", S(7))), A.Bitwise(A.Array(2, S(8)))]
        for prog in bitprogs:
            con = campaign.realizable(prog)
            width = con.sizeof()
            pats = [bytes([b]) for b in range(256)] if width == 1 else \
                   [bytes([a, b]) for a in (0x00, 0x80, 0x7f, 0xff, 0x40, 0xc0, 0x01) for b in (0x00, 0x80, 0x7f, 0xff, 0x01)]
            for data in (pats if not quick else pats[::2] + [b"\x80", b"\x90", b"\x84", b"\x88", b"\xc0"][:5] if width == 1 else pats):
                camp.roundtrip_from_bytes(prog, con, data, {})
            camp.sh.maybe_flush()
        for prog, kw, vals in U.fixed_programs():
            con = campaign.realizable(prog)
            for v in vals:
                camp.roundtrip_from_value(prog, con, v, kw, ("C02.self",))
            for data in [bytes(t) for n2 in (1, 2, 3) for t in itertools.product([0x00, 0x5a, 0xab, 0xff], repeat=n2)] + [b"abc\x02\xab\xcd\x09", b"\x01\x03\xab\xcd\xef", b"\x02\xab\xcd",
                                                                                                                               b"\x01\x02\x03\x04", b"\x01\x02\x03\x04\x05", b"\x05\x01\x02\x03\x04\x05", b"\x01\x02\x03\x04\x05\x06", b"\x07\x06abcdef\x09", b"\x01\x02\x03\x04\x05\x06\x07\x08"]:
                camp.roundtrip_from_bytes(prog, con, data, kw)
        camp.sh.maybe_flush()
        gallery_formats(ctx, camp)
        # spec -> code: on the sessions TLC explores on the model's universe, the four-call session from the same input
        # and the three-call session from the value the specification parsed
        uprogs, ukw, sessions, _ = speccode.explore(ctx, focus="all", part=speccode.part_of(ctx, 32 if quick else 48))
        def on(camp, prog, con, s, idx):
            camp.roundtrip_from_bytes(prog, con, bytes(s["data"]), ukw)
            if idx["build"]:
                try:
                    obj = V.dec(s["calls"][1]["arg"])
                except Exception:
                    return
                camp.roundtrip_from_value(prog, con, obj, ukw, ("C02.self",))
        speccode.drive(camp, uprogs, ukw, sessions, on)
        vs = camp.validate()
        campaign.judge(ctx, camp, vs, conformance=None, clauses=CLAUSES)
        nt = set()
        noncanon = 0
        for v in vs:
            if v.get("why") in CLAUSES and v["st"] in ("ok", "fail"):
                m = camp.sh.meta[v["id"]]
                c0 = camp.sh.meta[m["calls"][0]]
                nt.add((common.pkey(c0["prog"]), bytes(c0["case"]["data"]), str(c0["case"]["arg"])))
                if v["why"] == "C02.canon":
                    c1 = camp.sh.meta[m["calls"][1]]["case"]
                    if c1["res"]["ok"] and c1["res"]["v"].get("b") != c0["case"]["data"]:
                        noncanon += 1
        ctx.cov["distinct_nontrivial"] = len(nt)
        ctx.cov["accepted_noncanonical_inputs"] = noncanon


def gallery_formats(ctx, camp):
    """the gallery formats on the sample files the repository ships: parse, build, parse, build.  These formats use adapters and
    lambdas, so they are not programs of the specification; results enter as digests and TLC evaluates C02Stable on them."""
    import hashlib, json, sys, os
    from ..check import REPO
    if REPO not in sys.path:
        sys.path.insert(0, REPO)
    try:
        import deprecated_gallery as dg, gallery as g
    except Exception as e:
        ctx.cov["gallery"] = "not importable: %r" % (e,)
        return
    D, G = os.path.join(REPO, "tests/deprecated_gallery/blobs"), os.path.join(REPO, "tests/gallery/blobs")
    # cap_file is left out: its user-written MicrosecAdapter drops the microseconds on encoding
    cases = [(dg.png_file, D, "sample.png"), (dg.emf_file, D, "emf1.emf"), (dg.bitmap_file, D, "bitmap1.bmp"), (dg.bitmap_file, D, "bitmap4.bmp"), (dg.bitmap_file, D, "bitmap8.bmp"),
             (dg.bitmap_file, D, "bitmap24.bmp"), (dg.wmf_file, D, "wmf1.wmf"), (dg.gif_file, D, "sample.gif"), (dg.mbr_format, D, "mbr1"), (dg.snoop_file, D, "snoop1"),
             (dg.pe32_file, D, "python.exe"), (dg.pe32_file, D, "NOTEPAD.EXE"), (dg.elf32_file, D, "ctypes.so"), (g.pe32file, G, "python37-win32.exe"),
             (g.pe32file, G, "SharpZipLib0860-dotnet20.dll")]
    def dig(x):
        return V.VBytes(hashlib.sha256(x).digest())
    n = 0
    for fmt, d, name in cases:
        path = os.path.join(d, name)
        if not os.path.exists(path):
            continue
        with open(path, "rb") as f:
            data = f.read()
        calls = []
        cur = data
        val = None
        for step in range(4):
            try:
                if step % 2 == 0:
                    val = fmt.parse(cur)
                    res = {"ok": True, "v": dig(repr(val).encode()), "err": "", "p": len(cur), "path": []}
                else:
                    cur = fmt.build(val)
                    res = {"ok": True, "v": dig(cur), "err": "", "p": len(cur), "path": []}
            except Exception as e:
                res = {"ok": False, "v": V.VNone(), "err": type(e).__name__, "p": 0, "path": []}
            calls.append(camp.sh.add({"k": "Opaque", "desc": "gallery " + name}, {"op": "parse" if step % 2 == 0 else "build", "events": [], "res": res}, {}, b"", 0, None, None, "gallery"))
            if not res["ok"]:
                break
        if len(calls) == 4:
            camp.sh.session("C02.stable", calls)
            n += 1
    camp.sh.maybe_flush()
    ctx.cov["gallery_formats_sessions"] = n
