"""C09  Look-ahead and alternatives leave the stream exactly where their contract says.

Universe: Peek / Pointer / Select / Optional / GreedyRange / Union around fixed, variable (VarInt, Prefixed, PascalString),
validating (Const, OneOf, Check) and nested alternatives, inside structures with members before and after, parsed with
parse_stream at start offsets 0..2 over all short inputs, and built (Pointer).  Decided twice on the recorded behaviours:
(1) the machine-level clauses of spec/CAM.tla (PeekRestores, PointerRestores, alternatives and elements start where the
contract says, the failed one leaves no trace, Union members start together) need no semantics of the members; (2) trace
validation against Sem for the positions and values at the recovering nodes themselves.
"""
import itertools
from .. import ast as A, gen, values as V, campaign, universes as U, speccode
from . import common

LEVEL = "model_checking"
RECOVER = {"Peek", "Pointer", "Select", "GreedyRange", "Union"}
KINDS = {"in-pos", "out-pos", "out-value", "out-status", "result:result-pos", "result:result-value", "result:result-status", "result:result-bytes"}

def run(ctx):
    rng = ctx.rng
    quick = ctx.quick()
    ctx.rule = ("a case is parse_stream (or build_stream) of a program around a look-ahead / alternative construct at a start offset; inputs: all "
                "strings over the boundary alphabet up to length 3 for a sample of programs plus random longer ones; non-trivial = some "
                "alternative or element failed after the stream had moved")
    nprog = 900 if quick else 12000
    with campaign.Campaign(ctx, "c09", shard_size=1200) as camp:
        for i in range(nprog):
            prog = U.c09_program(rng)
            con = campaign.realizable(prog)
            if con is None:
                continue
            inputs = [gen.random_input(rng, 7) for _ in range(6)]
            if i % 10 == 0:
                inputs += [bytes(t) for n in range(0, 3 if quick else 4) for t in itertools.product([0, 1, 0x7f, 0xff], repeat=n)]
            for data in inputs:
                st = rng.choice([0, 0, 1, 2])
                ip, p = camp.parse(prog, con, b"\xee" * st + data, st, {})
                if p["res"]["ok"] and rng.random() < 0.35:
                    try:
                        camp.build(prog, con, V.dec(p["res"]["v"]), rng.choice([b"", b"\xee\xee\xee\xee"]), {}, arg=p["res"]["v"])
                    except Exception:
                        pass
            # building through alternatives: what a failed alternative wrote leaves no trace in the output either
            if any(n["k"] in ("Select", "Optional") for n in A.walk(prog)):
                for _ in range(3):
                    try:
                        v = gen.build_value(rng, prog, {})
                    except Exception:
                        continue
                    camp.build(prog, con, v, rng.choice([b"", b"\xee"]), {})
            camp.sh.maybe_flush()
            if i < 3:
                ctx.sample({"program": prog})
        # alternatives and elements on a streaming bit-level region that runs out in the middle of one: nothing of it is consumed
        for prog in (A.Bitwise(A.GreedyRange(A.BitsInteger(5))), A.Bitwise(A.Struct(A.Renamed("a", A.Alias("Nibble")), A.Renamed("o", A.Optional(A.BitsInteger(12))), A.Renamed("r", A.GreedyBytes))),
                     A.BitsSwapped(A.GreedyRange(A.Alias("Int24ub"))), A.Bitwise(A.Sequence(A.Select(A.BitsInteger(20), A.BitsInteger(6)), A.GreedyBytes)),
                     A.Bitwise(A.GreedyRange(A.Select(A.Sequence(A.Const(b"\x01"), A.BitsInteger(9)), A.BitsInteger(3))))):
            con = campaign.realizable(prog)
            for n in range(0, 5):
                for data in ([bytes(t) for t in itertools.product([0, 0x81, 0xff], repeat=n)] if n <= 2 else [gen.rbytes(rng, n) for _ in range(6)]):
                    camp.parse(prog, con, data, 0, {})
        camp.sh.maybe_flush()
        # an alternative that fails only after it has written something, followed by a shorter successful one
        I32, I16, B = A.Alias("Int32ub"), A.Alias("Int16ub"), A.Alias("Byte")
        for prog, vals in ((A.Select(A.Sequence(I32, B), A.Sequence(B, I16)), [[1, 300], [1, 2], [256, 1], [70000, 1]]),
                           (A.Optional(A.Sequence(I16, B)), [[0x4142, 300], [1, 2], None]),
                           (A.Struct(A.Renamed("h", B), A.Renamed("x", A.Select(A.Struct(A.Renamed("a", I16), A.Renamed("b", A.Const(b"\x01"))), A.Struct(A.Renamed("a", B)))), A.Renamed("t", B)),
                            [{"h": 1, "x": {"a": 5, "b": b"\x02"}, "t": 9}, {"h": 1, "x": {"a": 5}, "t": 9}, {"h": 1, "x": {"a": 300, "b": b"\x02"}, "t": 9}]),
                           (A.Select(A.Sequence(I16, A.Select(A.Sequence(I32, B), B)), A.Sequence(B, B)), [[1, 300], [1, [1, 300]], [1, 2]])):
            con = campaign.realizable(prog)
            for v in vals:
                for pre in (b"", b"\xee\xee"):
                    camp.build(prog, con, v, pre, {})
        # Pointer over another stream (stream=...): the member is processed there, at the target, and that stream is put back
        import io, construct as cs
        oprog = {"k": "Opaque", "desc": "Pointer(stream=other)"}
        for target in (0, 2, 3, -2):
            want = target if target >= 0 else 8 + target
            for start in (0, 1, 5):
                for op in ("parse", "build"):
                    side = io.BytesIO(b"abcdefgh"); side.seek(start)
                    con = cs.Struct("h" / cs.Byte, "p" / cs.Pointer(target, cs.Struct("t" / cs.Tell, "b" / cs.Byte), stream=lambda ctx, side=side: side), "n" / cs.Byte)
                    if op == "parse":
                        i1, c1 = camp.parse(oprog, con, b"\x01\x02\x03", 0, {})
                        try:
                            at = int(V.dec(c1["res"]["v"])["p"]["t"]) if c1["res"]["ok"] else -1
                        except Exception:
                            at = -1
                    else:
                        i1, c1 = camp.build(oprog, con, {"h": 1, "p": {"b": 0x41}, "n": 2}, b"\xee", {})
                        at = want if side.getvalue()[want:want + 1] == b"A" else -1
                    camp.sh.session("C09.alt-stream", [i1], x={"before": start, "after": side.tell(), "at": at, "want": want})
        # spec -> code: every session TLC explores on the look-ahead part of the model's universe (design-level clauses checked there)
        progs, kw, sessions, _ = speccode.explore(ctx, focus="C09", part=speccode.part_of(ctx, 20 if quick else 12))
        speccode.drive(camp, progs, kw, sessions)
        vs = camp.validate()
        campaign.judge(ctx, camp, vs, clauses=("C09.alt-stream",), conformance=lambda v, m: campaign.kind_of(v) in KINDS and
                       (v["exp"]["k"] in RECOVER or v["got"]["k"] in RECOVER or campaign.kind_of(v).startswith("result:") or
                        # where a member of a look-ahead / alternative construct starts is that construct's doing
                        (campaign.kind_of(v) == "in-pos" and any(n["k"] in RECOVER for n in A.walk(m["prog"])))) and
                       (m["case"]["op"] == "parse" or (m["case"]["op"] == "build" and any(n["k"] in ("Select", "Optional") for n in A.walk(m["prog"])) and
                                                       campaign.kind_of(v) in ("result:result-bytes", "result:result-status", "result:result-pos", "out-value", "out-status", "out-pos", "in-pos"))))
        cvs = campaign.validate_cam(camp)
        campaign.judge_cam(ctx, camp, cvs, ["C09."])
        if True:
            # the repository's own tests (core, compiler, gallery formats on their sample files), recorded under the hook and replayed through the pushdown machine
            from .. import repotests
            repotests.run(ctx, ["C09."])
        nt = 0
        for cid, m in camp.sh.meta.items():
            if "case" in m:
                ev = m["case"]["events"]
                if any((not e["ok"]) and e["e"] == "out" for e in ev) and m["case"]["res"]["ok"]:
                    nt += 1
        ctx.cov["distinct_nontrivial"] = nt
