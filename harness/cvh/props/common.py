"""Shared pieces of the property checks."""
from .. import ast as A, gen, values as V, campaign, tlc
from ..pipeline import pkey
import os

# mismatch kinds that are disagreements about values / bytes / consumption / acceptance
VALUE_KINDS = {"in-pos", "in-arg", "out-status", "out-value", "out-pos",
               "result:result-status", "result:result-value", "result:result-bytes", "result:result-pos"}
ERRCLASS_KINDS = {"out-errclass", "result:result-errclass"}

def standard_program_calls(camp, rng, prog, con, kw, nvalues=3, ninputs=3, clauses=("C01.sym", "C02.self", "C02.canon"),
                           sizeof=False, offsets=True, maxlen=6):
    """values -> build (-> parse -> rebuild); inputs (random, canonical, mutated) -> parse (-> build -> parse -> build)"""
    inputs = [gen.random_input(rng, maxlen) for _ in range(ninputs)]
    # boundary patterns: the most negative value of a signed field of any width and alignment, all ones, sign bit alone
    n = rng.randint(1, maxlen)
    inputs += [bytes([0x80] * n), bytes([0x80] + [0] * (n - 1)), bytes([rng.choice([0x10, 0x08, 0x04, 0x90, 0x84, 0xc0])] + [0] * (n - 1))]
    for _ in range(nvalues):
        try:
            v = gen.build_value(rng, prog, kw)
        except Exception:
            continue
        outs = camp.roundtrip_from_value(prog, con, v, kw, clauses)
        for out in outs:
            if rng.random() < 0.6:
                inputs.append(gen.mutate(rng, out))
        if offsets and rng.random() < 0.3:
            camp.build(prog, con, v, rng.choice([b"\xee", b"\xee\xee\xee"]), kw, tag="offset")
        camp.sh.maybe_flush()
    for data in inputs:
        if "C02.canon" in clauses:
            camp.roundtrip_from_bytes(prog, con, data, kw)
        else:
            camp.parse(prog, con, data, 0, kw, tag="input")
        if offsets and rng.random() < 0.3:
            st = rng.choice([1, 2, 3])
            camp.parse(prog, con, b"\xee" * st + data, st, kw, tag="offset")
        camp.sh.maybe_flush()
    if sizeof:
        camp.sizeof(prog, con, kw)
        if kw:
            camp.sizeof(prog, con, {})


def design_level(ctx, module, workers=16, required=True):
    "run an MC_* configuration of the specification (TLC alone, no implementation involved)"
    cfg = module + ".cfg"
    if not os.path.exists(os.path.join(tlc.SPEC, module + ".tla")):
        if required:
            raise tlc.MachineryError("missing design-level module " + module)
        return None
    out, stats = tlc.run_tlc(module + ".tla", cfg, workers=workers, scratch=ctx.scratch, env={"MC_TIER": ctx.tier})
    if "Error:" in out:
        raise tlc.MachineryError("%s: design-level check failed:\n%s" % (module, out[-2500:]))
    ctx.add_tlc(stats)
    ctx.cov.setdefault("design_level", {})[module] = {"states": stats["distinct"], "wall_s": round(stats["wall_s"], 1)}
    return stats


def corpus(ctx):
    """programs (with keyword context and optional explicit values) that every run of this property includes: regression cases, and the cases
    that reproduce the listed known findings"""
    import json
    path = os.path.join(os.path.dirname(tlc.SPEC), "corpus", ctx.prop + ".json")
    if not os.path.exists(path):
        return []
    def hook(d):
        return bytes(d["__bytes__"]) if "__bytes__" in d else d
    with open(path) as f:
        return json.load(f, object_hook=hook)
