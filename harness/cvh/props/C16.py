"""C16  Lazy parsing is observationally equal to eager parsing under any access order.

Design level (TLC, MC_C16): the lazy-object state machine of spec/Lazy.tla (offsets table, cache, seek-parse-restore) is explored over all access histories
(any order, repetitions) of member lists mixing fixed-size, keyword-sized, length-prefixed (also includelength) and unsizable members: LazyEqualsEager,
AccessIsInvisible, SameFinalPosition, CacheSound; with the snapshot's behaviour (no restore) as a negative control.
Conformance: histories chosen by the harness (all permutations for <= 4 members, random ones with repetitions, by name / attribute / index / iteration / slice) are
performed on the real LazyContainer / LazyListContainer / Lazy thunk; value and stream position after every access are recorded and judged by TLC against the
recorded (and Sem-validated) eager parse of the same bytes (C16History); lazies embedded in a surrounding parse whose later members read them are compared with
their eager twin (C16.eager-equal); rebuilding from a lazy result reproduces the bytes.
"""
import io, itertools
from .. import ast as A, gen, values as V, campaign, tracer
from . import common

LEVEL = "model_checking"
CLAUSES = ("C16.history", "C16.eager-equal")

def members(rng, kw):
    pool = [A.Alias("Byte"), A.Alias("Int16ub"), A.Alias("Int32sl"), A.Bytes(2), A.Bytes(A.T("_params", "k")), A.Prefixed(A.Alias("Byte"), A.GreedyBytes),
            A.Prefixed(A.Alias("Int16ub"), A.GreedyBytes, incl=True), A.Prefixed(A.VarInt, A.Alias("Byte")), A.VarInt, A.CString("utf8"), A.PascalString(A.Alias("Byte"), "utf8"),
            A.PrefixedArray(A.Alias("Byte"), A.Alias("Int16ub")), A.Array(2, A.Alias("Byte")), A.Struct(A.Renamed("x", A.Alias("Byte")), A.Renamed("y", A.Bytes(1))),
            A.Padded(3, A.Alias("Byte")), A.Flag, A.ZigZag, A.PaddedString(A.T("_params", "k"), "ascii")]
    pool += [A.PrefixedArray(A.Alias("Byte"), A.VarInt), A.PrefixedArray(A.Alias("Int16ub"), A.CString("utf8"))]
    pool += [A.Default(A.Alias("Int16ub"), 7), A.Optional(A.Alias("Byte")), A.Const(b"MZ"), A.Default(A.Alias("Byte"), 1)]
    # wrappers that cannot tell their size although their element can (a run ended by a value, a terminated field): parsed, never skipped
    pool += [A.RepeatUntil(A.Bin("==", A.Obj, A.C(0)), A.Alias("Byte")), A.NullTerminated(A.GreedyBytes), A.RepeatUntil(A.Bin("==", A.Obj, A.C(0)), A.Alias("Int16ub")),
             A.NullTerminated(A.Alias("Int16ub"), term=b"\xff")]
    n = rng.choice([1, 2, 3, 3, 4, 4, 5, 6])
    return [A.Renamed(nm, rng.choice(pool)) for nm in "abcdef"[:n]]

def prefix_measured(rng):
    "members whose size is found by reading a prefix (Construct._actualsize): the probe moves the stream, and may still have to give up"
    return rng.choice([A.Prefixed(A.Alias("Byte"), A.GreedyBytes), A.Prefixed(A.Alias("Int16ub"), A.GreedyBytes, incl=True), A.Prefixed(A.Alias("Byte"), A.Bytes(2), incl=True),
                       A.Prefixed(A.VarInt, A.GreedyBytes, incl=True), A.PrefixedArray(A.Alias("Byte"), A.VarInt), A.PrefixedArray(A.Alias("Int16ub"), A.CString("utf8")),
                       A.PrefixedArray(A.Alias("Byte"), A.Alias("Int16ub")), A.Prefixed(A.VarInt, A.Alias("Byte")),
                       A.PrefixedArray(A.Alias("Byte"), A.Prefixed(A.Alias("Byte"), A.GreedyBytes)), A.PrefixedArray(A.Alias("Byte"), A.PrefixedArray(A.Alias("Byte"), A.Alias("Byte"))),
                       A.PrefixedArray(A.VarInt, A.Prefixed(A.Alias("Byte"), A.GreedyBytes, incl=True))])

def eager_twin(n):
    if not isinstance(n, dict) or "k" not in n:
        return n
    m = {k: ([eager_twin(x) for x in v] if isinstance(v, list) else eager_twin(v)) for k, v in n.items()}
    if m["k"] == "LazyStruct": m["k"] = "Struct"
    elif m["k"] == "LazyArray": m["k"] = "Array"; m["discard"] = False
    elif m["k"] == "Lazy": return m["sub"]
    return m

def force(v):
    "evaluate every lazy part of a parse result (declaration order) so that it can be compared with the eager result"
    import construct as cs
    if callable(v) and not isinstance(v, type):
        return force(v())
    if isinstance(v, cs.core.LazyContainer):
        return cs.Container((k, force(v[k])) for k in v.keys())
    if isinstance(v, cs.core.LazyListContainer):
        return cs.ListContainer(force(v[i]) for i in range(len(v)))
    if isinstance(v, dict):
        return cs.Container((k, force(x)) for k, x in v.items() if not (isinstance(k, str) and k.startswith("_")))
    if isinstance(v, list):
        return cs.ListContainer(force(x) for x in v)
    return v

def histories(rng, n, quick):
    hs = []
    if n <= 4:
        hs += [list(p) for p in itertools.permutations(range(n))]
    else:
        hs += [rng.sample(range(n), n) for _ in range(12)]
    hs += [[rng.randrange(n) for _ in range(rng.randint(1, 8))] for _ in range(6 if quick else 30)]
    hs += [list(range(n - 1, -1, -1)), [n - 1, n - 1, 0, 0]]
    if quick and len(hs) > 16:
        hs = rng.sample(hs, 16)
    return hs

def run(ctx):
    import construct as cs
    rng = ctx.rng
    quick = ctx.quick()
    ctx.rule = ("a case is one access history on a lazy result: every permutation of <= 4 members, random histories with repetitions up to length 8, accesses by name, attribute, "
                "index, iteration and slice; non-trivial = the history is not the declaration order or repeats a member")
    common.design_level(ctx, "MC_C16", workers=8)
    from .. import tlc
    out, stats = tlc.run_tlc("MC_C16.tla", "MC_C16.cfg", workers=4, scratch=ctx.scratch, env={"MC_TIER": "quick", "MC_CONTROL": "1"})
    if "violated" not in out:
        raise tlc.MachineryError("MC_C16 negative control: no violation found for a lazy object that does not restore the position")
    ctx.cov["design_level"]["MC_C16_control"] = "violation found when accesses do not restore the position, as required"
    nprog = 180 if quick else 1500
    nt = 0
    with campaign.Campaign(ctx, "c16", shard_size=1200) as camp:
        fixed = [("array", A.N("LazyArray", count=A.C(2), sub=A.PrefixedArray(A.Alias("Byte"), A.VarInt))),
                 ("array", A.N("LazyArray", count=A.C(3), sub=A.PrefixedArray(A.Alias("Int16ub"), A.CString("utf8")))),
                 ("array", A.N("LazyArray", count=A.C(2), sub=A.Prefixed(A.Alias("Byte"), A.Bytes(2), incl=True))),
                 ("array", A.N("LazyArray", count=A.C(3), sub=A.Prefixed(A.VarInt, A.GreedyBytes, incl=True))),
                 ("array", A.N("LazyArray", count=A.C(2), sub=A.PrefixedArray(A.Alias("Byte"), A.Prefixed(A.Alias("Byte"), A.GreedyBytes)))),
                 ("array", A.N("LazyArray", count=A.C(3), sub=A.PrefixedArray(A.Alias("Byte"), A.PrefixedArray(A.Alias("Byte"), A.Alias("Byte"))))),
                 ("thunk", A.N("Lazy", sub=A.Prefixed(A.Alias("Int16ub"), A.GreedyBytes, incl=True))),
                 ("thunk", A.N("Lazy", sub=A.PrefixedArray(A.Alias("Byte"), A.Alias("Int16ub")))),
                 ("thunk", A.N("Lazy", sub=A.Default(A.Alias("Int16ub"), 7))),
                 ("thunk", A.N("Lazy", sub=A.Struct(A.Renamed("a", A.Default(A.Alias("Byte"), 1)), A.Renamed("b", A.Default(A.Alias("Byte"), 2)))))]
        for i in range(nprog + len(fixed)):
            kw = {"k": rng.choice([1, 2, 3])}
            mem = members(rng, kw)
            kind = rng.choice(["struct", "struct", "array", "array", "thunk"])
            if i < len(fixed):
                kind, lazy = fixed[i]
                mem = [A.Renamed("a", lazy["sub"])]
            elif kind == "struct":
                subs = list(mem)
                if i >= len(fixed) and rng.random() < 0.4:      # members without a name: positions count them, names do not
                    for _ in range(rng.choice([1, 2])):
                        subs.insert(rng.randrange(len(subs) + 1), rng.choice([A.Const(b"MZ"), A.Padding(2), A.Alias("Byte"), A.Const(7, A.Alias("Int16ub"))]))
                lazy = A.N("LazyStruct", subs=subs)
            elif kind == "array":
                el = mem[0]["sub"] if rng.random() < 0.5 else prefix_measured(rng)
                lazy = A.N("LazyArray", count=A.C(rng.choice([1, 2, 3, 4, 5])), sub=el)
            else:
                lazy = A.N("Lazy", sub=A.Struct(*mem) if rng.random() < 0.5 else prefix_measured(rng))
            eager = eager_twin(lazy)
            try:
                lc, ec = A.realize(lazy), A.realize(eager)
                campaign.REALIZED["ok"] += 1
            except Exception:
                campaign.REALIZED["failed"] += 1
                continue
            # the same lazy object is used again under other keywords (a member sized by a keyword has another size then)
            kws = [kw] + ([{"k": kw["k"] % 3 + 1}] if "_params" in str(lazy) else [])
            for kw in kws:
                # canonical inputs (+ trailing bytes), mutated ones
                datas = []
                for _ in range(3):
                    try:
                        v = gen.build_value(rng, eager, kw)
                        datas.append(ec.build(v, **kw) + gen.rbytes(rng, rng.choice([0, 2])))
                    except Exception:
                        pass
                datas += [gen.mutate(rng, d) for d in datas[:1]] + [gen.random_input(rng, 12)]
                for data in datas:
                    st = rng.choice([0, 0, 1, 3])
                    full = b"\xee" * st + data
                    ie, e = camp.parse(eager, ec, full, st, kw)
                    if not e["res"]["ok"]:
                        continue
                    n = len(mem) if kind == "struct" else (V.dec(lazy["count"]["v"]) if kind == "array" else 1)
                    for h in histories(rng, n, quick) if n else []:
                        stream = io.BytesIO(full); stream.seek(st)
                        rec = {"ok": True, "err": "", "p": -1, "kind": kind, "hist": []}
                        try:
                            res = lc.parse_stream(stream, **kw)
                            rec["p"] = stream.tell()
                        except Exception as ex:
                            rec["ok"] = False
                            rec["err"] = type(ex).__name__
                            res = None
                        if rec["ok"]:
                            # park the stream somewhere else: an access must not care where the stream stands, and must put it back
                            if rng.random() < 0.5:
                                stream.seek(rng.randrange(len(full) + 1))
                            for j in h:
                                pb = stream.tell()
                                how = rng.randrange(4)
                                try:
                                    if kind == "struct":
                                        nm = mem[j]["name"]
                                        pos = [q for q, sc in enumerate(lazy["subs"]) if sc.get("k") == "Renamed"][j]
                                        val = res[nm] if how == 0 else getattr(res, nm) if how == 1 else res[pos] if how == 2 else dict(res.items())[nm]
                                    elif kind == "array":
                                        nm = ""
                                        val = res[j] if how < 2 else res[j:j + 1][0] if how == 2 else list(res)[j]
                                    else:
                                        nm = ""
                                        val = res()
                                    ok = True
                                except Exception:
                                    ok, val = False, None
                                rec["hist"].append({"i": j + 1, "nm": nm, "ok": ok, "v": V.enc(force(val)) if ok else V.VNone(), "pb": pb, "pa": stream.tell()})
                            if kind == "array" and rng.random() < 0.6:
                                # whatever was touched before, and in whatever order: a slice of the whole holds the elements in their order
                                pb = stream.tell()
                                lo = rng.choice([0, 0, 1]) if n > 1 else 0
                                try:
                                    whole, ok = list(res[lo:]), True
                                except Exception:
                                    whole, ok = [None] * (n - lo), False
                                for j, val in enumerate(whole[: n - lo]):
                                    rec["hist"].append({"i": lo + j + 1, "nm": "", "ok": ok, "v": V.enc(force(val)) if ok else V.VNone(), "pb": pb, "pa": stream.tell()})
                        camp.sh.session("C16.history", [ie], x=rec)
                        if h != sorted(h) or len(set(h)) != len(h):
                            nt += 1
                    # building from the lazy result (nothing touched, or everything) emits what building from the eager result emits
                    if data in datas[:3]:
                        try:
                            ve = V.dec(e["res"]["v"])
                        except Exception:
                            ve = None
                        if ve is not None or e["res"]["v"].get("t") == "none":
                            ibe, be = camp.build(eager, ec, ve, b"", kw, arg=e["res"]["v"])
                            for touch in (False, True):
                                stream = io.BytesIO(full); stream.seek(st)
                                try:
                                    res = lc.parse_stream(stream, **kw)
                                except Exception:
                                    continue        # (a lazy parse that declines is the history clause's business)
                                try:
                                    if touch:
                                        force(res)
                                    out = io.BytesIO()
                                    lc.build_stream(res, out, **kw)
                                    call = {"op": "build", "events": [], "res": {"ok": True, "v": V.VBytes(out.getvalue()), "err": "", "p": out.tell(), "path": []}}
                                except Exception as ex:
                                    call = {"op": "build", "events": [], "res": {"ok": False, "v": V.VNone(), "err": type(ex).__name__, "p": 0, "path": []}}
                                il = camp.sh.add({"k": "Opaque", "desc": "build from the lazy result"}, call, kw, b"", 0, None, None, "lazy-build")
                                camp.sh.session("C16.eager-equal", [ibe, il], x={"lazy": lazy})
                    camp.sh.maybe_flush()
                # lazies embedded in a surrounding parse whose later members read them
                if kind in ("struct", "array") and mem:
                    first = mem[0]["name"]
                    ref = A.T("l", first) if kind == "struct" else A.Idx(A.T("l"), 0)
                    outer_l = A.Struct(A.Renamed("h", A.Alias("Byte")), A.Renamed("l", lazy), A.Renamed("c", A.Computed(ref)), A.Renamed("n", A.Bytes(2)), A.Renamed("t", A.Tell))
                    outer_e = eager_twin(outer_l)
                    try:
                        olc, oec = A.realize(outer_l), A.realize(outer_e)
                    except Exception:
                        continue
                    for data in datas[:3]:
                        full = b"\x09" + data + b"\x41\x42\x43"
                        ie, e = camp.parse(outer_e, oec, full, 0, kw)
                        # the lazy side: record by hand (values forced after the parse)
                        stream = io.BytesIO(full)
                        try:
                            res = olc.parse_stream(stream, **kw)
                            call = {"op": "parse", "events": [], "res": {"ok": True, "v": V.enc(force(res)), "err": "", "p": stream.tell(), "path": []}}
                        except Exception as ex:
                            call = {"op": "parse", "events": [], "res": {"ok": False, "v": V.VNone(), "err": type(ex).__name__, "p": stream.tell(), "path": []}}
                        il = camp.sh.add({"k": "Opaque", "desc": "lazy twin"}, call, kw, full, 0, None, None, "lazy")
                        camp.sh.session("C16.eager-equal", [ie, il], x={"lazy": outer_l})
                        nt += 1
            if i < 2:
                ctx.sample({"lazy": lazy, "kw": kw})
        vs = camp.validate()
        campaign.judge(ctx, camp, vs, conformance=None, clauses=CLAUSES)
        ctx.cov["distinct_nontrivial"] = nt
