"""C06  Malformed, truncated or failing input is always reported as ConstructError.

Recorded on the real library and judged by TLC:
 * only-construct-errors / terminates (spec/CAM.tla RootChecks): every parse of arbitrary bytes (random, boundary-biased, mutated canonical
   data, huge length fields) through a core-fragment program returns or raises a ConstructError subclass; a run that exceeds the event
   budget is a termination failure unless the specification says the program diverges (non-productive repeater);
 * C06Prefix (spec/Props.tla): every strict prefix of a canonical encoding of a program without greedy, optional or look-ahead parts is
   rejected with StreamError;
 * C06Fault: for every index k of the k-th stream operation and every mode (raise, short transfer, non-seekable, non-tellable), for parse and
   build, no foreign exception escapes and -- for programs without recovering constructs -- the outcome is StreamError, never a value;
 * conformance of the error class (stream / other construct error / explicit) at every node against Sem.
"""
import itertools
from .. import ast as A, gen, values as V, campaign, tracer, speccode
from . import common

LEVEL = "model_checking"
CLAUSES = ("C06.prefix", "C06.fault")
MODES = ("raise", "short", "noseek", "notell")

def run(ctx):
    rng = ctx.rng
    quick = ctx.quick()
    ctx.rule = ("cases: parses of arbitrary / mutated / truncated inputs, and parse and build runs with a stream fault at operation k for every k up to the "
                "number of operations of the fault-free run and every fault mode; non-trivial = the input was rejected, or a fault was injected at a reachable k")
    nprog = 340 if quick else 6000
    nt = 0
    with campaign.Campaign(ctx, "c06", strict=True, shard_size=1500) as camp:
        for i in range(nprog):
            kw = rng.choice([{}, {}, {"k": 2}, {"k": 1, "w": 3}])
            prog = gen.program(rng, rng.choice([1, 2, 2, 3]), kw)
            con = campaign.realizable(prog)
            if con is None:
                continue
            inputs = [gen.random_input(rng, 8) for _ in range(3)] + [bytes([0xff] * rng.randint(1, 9)), b"\x7f\xff\xff\xff\xff" + gen.rbytes(rng, 2)]
            canon = []
            for _ in range(3):
                try:
                    v = gen.build_value(rng, prog, kw)
                except Exception:
                    continue
                ib, b = camp.build(prog, con, v, b"", kw)
                if b["res"]["ok"]:
                    out = bytes(b["res"]["v"]["b"])
                    canon.append((v, out))
                    inputs.append(gen.mutate(rng, out))
                    # every truncation offset
                    for j in range(len(out)):
                        ip, p = camp.parse(prog, con, out[:j], 0, kw, tag="trunc")
                        camp.sh.session("C06.prefix", [ib, ip])
                        nt += 1
            for data in inputs:
                camp.parse(prog, con, data, 0, kw, tag="input")
            # stream faults
            for (v, out) in canon[:2]:
                st = rng.choice([0, 1])
                data = b"\xee" * st + out
                ic, c = camp.parse(prog, con, data, st, kw, fault={"k": 0, "mode": "none"}, tag="clean")
                n = min(c["ops"], 14 if quick else 40)
                for mode in MODES:
                    for k in (range(1, n + 1) if mode in ("raise", "short") else [0]):
                        if quick and mode == "short" and k % 2 == 0 and n > 6:
                            continue
                        ifl, f = camp.parse(prog, con, data, st, kw, fault={"k": k, "mode": mode}, tag="fault")
                        camp.sh.session("C06.fault", [ic, ifl])
                        nt += 1
                pre = rng.choice([b"", b"\xee"])
                icb, cb = camp.build(prog, con, v, pre, kw, fault={"k": 0, "mode": "none"}, tag="clean")
                n = min(cb["ops"], 12 if quick else 40)
                for mode in MODES:
                    for k in (range(1, n + 1) if mode in ("raise", "short") else [0]):
                        if quick and mode == "short" and k % 2 == 0 and n > 6:
                            continue
                        ifl, f = camp.build(prog, con, v, pre, kw, fault={"k": k, "mode": mode}, tag="fault")
                        camp.sh.session("C06.fault", [icb, ifl])
                        nt += 1
            camp.sh.maybe_flush()
            if i < 3:
                ctx.sample({"program": prog})
        # lengths, counts and paddings far beyond the data, from fixed-width fields (validated against Sem: the format needs those bytes)
        n16, n32 = A.Renamed("n", A.Alias("Int16ub")), A.Renamed("n", A.Alias("Int32ub"))
        N = A.T("n")
        for nf in (n16, n32):
            for body in (A.Padded(N, A.Alias("Byte")), A.Padding(N), A.Bytes(N), A.FixedSized(N, A.GreedyBytes), A.Array(N, A.Alias("Byte")) if nf is n16 else A.Bytes(N),
                         A.PaddedString(N, "utf8"), A.Aligned(N, A.Alias("Byte")), A.Prefixed(nf["sub"], A.GreedyBytes), A.Pointer(N, A.Alias("Byte"))):
                prog = A.Struct(nf, A.Renamed("d", body)) if body["k"] != "Prefixed" else body
                con = campaign.realizable(prog)
                if con is None:
                    continue
                for head in (b"\xff\xff", b"\x7f\xff", b"\x20\x01", b"\x00\x09"):
                    h = head if nf is n16 else head + b"\xff\xf0"
                    for tail in (b"", b"\x01", b"\x01\x02\x03"):
                        camp.parse(prog, con, h + tail, 0, {}, tag="large")
                        nt += 1
            camp.sh.maybe_flush()
        # bit-level regions whose length depends on the data and need not end on a byte boundary (the streaming wrapper refuses a partial unit when it is closed)
        NN = A.T("n")
        for prog in (A.Bitwise(A.Struct(A.Renamed("n", A.Alias("Nibble")), A.Renamed("v", A.BitsInteger(NN)))),
                     A.Bitwise(A.Struct(A.Renamed("n", A.Alias("Nibble")), A.Renamed("a", A.Array(NN, A.Alias("Bit"))))),
                     A.Bitwise(A.Struct(A.Renamed("a", A.Alias("Nibble")), A.Renamed("v", A.Bytewise(A.VarInt)))),
                     A.Struct(A.Renamed("h", A.Alias("Byte")), A.Renamed("b", A.Bitwise(A.Struct(A.Renamed("n", A.BitsInteger(3)), A.Renamed("r", A.Array(NN, A.BitsInteger(3)))))), A.Renamed("t", A.Alias("Byte"))),
                     A.BitsSwapped(A.Bitwise(A.Struct(A.Renamed("n", A.Alias("Nibble")), A.Renamed("v", A.BitsInteger(NN))))),
                     A.Bitwise(A.GreedyRange(A.BitsInteger(3))), A.Bitwise(A.Struct(A.Renamed("n", A.Alias("Octet")), A.Renamed("p", A.Padding(NN))))):
            con = campaign.realizable(prog)
            if con is None:
                continue
            for b0 in (range(256) if not quick else list(range(0, 256, 16)) + [1, 3, 0x14, 0x47, 0x8f, 0xff, 0x81]):
                for tail in (b"", b"\x01", b"\x81\x00\xff"):
                    camp.parse(prog, con, bytes([b0]) + tail, 0, {}, tag="bits")
                    nt += 1
            camp.sh.maybe_flush()
        # recursive formats (LazyBound) and the list adapters (Indexing / Slicing): every short input, and long chains
        from .. import universes as U
        for prog, kw, vals in U.recursive_programs() + U.list_adapter_programs() + U.measuring_in_streams():
            con = campaign.realizable(prog)
            if con is None:
                continue
            for n in range(0, 7 if quick else 8):
                for t in itertools.product((0, 1, 2, 3), repeat=n):
                    if n <= 2 or (n <= 5 and not quick) or rng.random() < (0.25 if n <= 4 else 0.02):
                        camp.parse(prog, con, bytes(t), 0, kw, tag="rec")
                        nt += 1
            for v in vals:
                ib, b = camp.build(prog, con, v, b"", kw)
                if b["res"]["ok"] and prog["k"] == "Rec":
                    out = bytes(b["res"]["v"]["b"])
                    for j in range(len(out)):
                        ip, p = camp.parse(prog, con, out[:j], 0, kw, tag="trunc")
                        camp.sh.session("C06.prefix", [ib, ip])
            if prog["k"] == "Rec":
                for unit in (b"\x01", b"\x02\x01"):
                    camp.parse(prog, con, unit * 30, 0, kw, tag="rec-long")
                    camp.parse(prog, con, unit * 30 + b"\x00\x00\x00", 0, kw, tag="rec-long")
            camp.sh.maybe_flush()
        # builds through streaming wrappers that write several units in one call, onto a stream that fails or writes short at every operation in turn
        for prog, v in ((A.Bitwise(A.Struct(A.Renamed("n", A.Alias("Octet")), A.Renamed("v", A.BitsInteger(A.T("n"))))), {"n": 24, "v": 0xabcdef}),
                        (A.Bitwise(A.Struct(A.Renamed("n", A.Alias("Octet")), A.Renamed("v", A.BitsInteger(A.T("n"))), A.Renamed("t", A.Alias("Octet")))), {"n": 16, "v": 0x1234, "t": 9}),
                        (A.BitsSwapped(A.Prefixed(A.Alias("Byte"), A.GreedyBytes)), b"abcd"),
                        (A.Struct(A.Renamed("h", A.Alias("Byte")), A.Renamed("b", A.BitsSwapped(A.Struct(A.Renamed("n", A.Alias("Byte")), A.Renamed("d", A.Bytes(A.T("n"))))))), {"h": 1, "b": {"n": 3, "d": b"xyz"}}),
                        (A.Bitwise(A.Struct(A.Renamed("a", A.Alias("Nibble")), A.Renamed("z", A.Bytewise(A.Bytes(A.T("_params", "k")))), A.Renamed("b", A.Alias("Nibble")))), {"a": 1, "z": b"\x23\x45", "b": 6})):
            con = campaign.realizable(prog)
            if con is None:
                continue
            kw = {"k": 2}
            icb, cb = camp.build(prog, con, v, b"", kw, fault={"k": 0, "mode": "none"}, tag="clean")
            for mode in ("raise", "short"):
                for k in range(1, min(cb["ops"], 16) + 1):
                    ifl, f = camp.build(prog, con, v, b"", kw, fault={"k": k, "mode": mode}, tag="fault")
                    camp.sh.session("C06.fault", [icb, ifl])
                    nt += 1
            camp.sh.maybe_flush()
        # spec -> code: every input of the sessions TLC explores on the model's universe (design level: theorems Closed / Prefix of MC_CAM),
        # and every strict prefix of the encodings the specification built
        uprogs, ukw, sessions, _ = speccode.explore(ctx, focus="all", part=speccode.part_of(ctx, 64 if quick else 64), faults=True)
        def on(camp, prog, con, s, idx):
            # every stream fault of the session's first parse (design level: theorem Faults of MC_CAM)
            data = bytes(s["data"])
            ic, c = camp.parse(prog, con, data, 0, ukw, fault={"k": 0, "mode": "none"}, tag="clean")
            for mode in MODES:
                for k in (range(1, min(c["ops"], 6 if quick else 10) + 1) if mode in ("raise", "short") else [0]):
                    ifl, f = camp.parse(prog, con, data, 0, ukw, fault={"k": k, "mode": mode}, tag="fault")
                    camp.sh.session("C06.fault", [ic, ifl])
            b = idx["calls"].get("build")
            if b is not None and b["res"]["ok"]:
                out = bytes(b["res"]["v"]["b"])
                for j in range(len(out)):
                    ip, p = camp.parse(prog, con, out[:j], 0, ukw, tag="trunc")
                    camp.sh.session("C06.prefix", [idx["build"], ip])
        nt += speccode.drive(camp, uprogs, ukw, sessions, on)
        vs = camp.validate()
        def conf(v, m):
            c = m["case"]
            k = campaign.kind_of(v)
            if c["flt"]["mode"] != "none":
                return False                       # fault runs are judged by outcome (C06Fault), not by operation alignment
            if c["op"] != "parse":
                return False
            # acceptance vs rejection, and the class of the rejection, of a parse: at the first event that differs, or -- whatever differs
            # first -- in the result the caller sees
            return k in ("out-status", "result:result-status") or k in common.ERRCLASS_KINDS or v.get("rd") in ("result-status", "result-errclass")
        campaign.judge(ctx, camp, vs, conformance=conf, clauses=CLAUSES)
        cvs = campaign.validate_cam(camp)
        # only-construct-errors concerns parsing, and builds under a stream fault
        parse_or_fault = {cid for cid, m in camp.sh.meta.items() if "case" in m and (m["case"]["op"] == "parse" or m["case"]["flt"]["mode"] != "none")}
        # a run cut by the event budget is a termination failure only if the specification says the program terminates
        diverges = {v["id"] for v in vs if v["st"] == "skipped"}
        cvs2 = []
        for v in cvs:
            if v["id"] not in parse_or_fault:
                continue
            if v["st"] == "fail" and v["id"] in diverges:
                v = dict(v, fails=[f for f in v["fails"] if f["clause"] != "C06.terminates"])
            cvs2.append(v)
        campaign.judge_cam(ctx, camp, cvs2, ["C06."])
        ctx.cov["distinct_nontrivial"] = nt
    huge_length_fields(ctx)
    ctx.assumptions.append("a run producing more than 4000 boundary events is taken as non-terminating")

def huge_length_fields(ctx):
    """length, count, offset and padding parameters taken from a variable-length integer of thousands of digits (beyond what Python converts
    to decimal): judged by the root clause of the pushdown machine alone (spec/CAM.tla), the values are far outside Sem's integers"""
    n = A.Renamed("n", A.VarInt)
    z = A.Renamed("n", A.ZigZag)
    N = A.T("n")
    progs = [A.Prefixed(A.VarInt, A.GreedyBytes), A.Struct(n, A.Renamed("d", A.Bytes(N))), A.Struct(n, A.Renamed("p", A.Pointer(N, A.Alias("Byte")))),
             A.Struct(n, A.Renamed("a", A.Array(N, A.Alias("Byte")))), A.Struct(z, A.Renamed("a", A.Array(N, A.Alias("Byte")))),
             A.Struct(n, A.Renamed("d", A.Padded(N, A.Alias("Byte")))), A.Struct(n, A.Renamed("d", A.FixedSized(N, A.GreedyBytes))),
             A.Struct(n, A.Seek(N), A.Renamed("b", A.Alias("Byte"))), A.Struct(n, A.Renamed("d", A.BytesInteger(N))), A.PrefixedArray(A.VarInt, A.Alias("Byte")),
             A.Struct(n, A.Renamed("d", A.PaddedString(N, "utf8"))), A.Struct(z, A.Renamed("d", A.Bytes(N))), A.Struct(n, A.Renamed("d", A.Aligned(N, A.Alias("Byte")))),
             A.PascalString(A.VarInt, "utf8"), A.Bitwise(A.Struct(A.Renamed("n", A.Bytewise(A.VarInt)), A.Renamed("d", A.BitsInteger(N)))),
             A.Struct(n, A.Renamed("d", A.N("Lazy", sub=A.Bytes(N))))]
    with campaign.Campaign(ctx, "c06h", strict=True, shard_size=400) as camp:
        for prog in progs:
            con = campaign.realizable(prog)
            if con is None:
                continue
            for size in (700, 2100, 2101):
                for last in (b"\x01", b"\x7f"):
                    camp.parse(prog, con, b"\xff" * size + last + b"\x00\x01\x02", 0, {}, tag="huge")
        cvs = campaign.validate_cam(camp)
        campaign.judge_cam(ctx, camp, cvs, ["C06."])
