"""C07  Context expressions resolve identically when parsing, building and sizing.

Universe: nesting shapes (depth <= 3) of Struct / Sequence / FocusedSeq / Union / Array / GreedyRange / RepeatUntil, with transparent wrappers
(IfThenElse, Switch, Optional, Prefixed, Array) between scopes, and a probe -- Computed(path), Bytes(path) or Array(path, Byte) -- for every
reference path (this.x, this._.x, this._._.x, this._root.x, this._params.k, this._index, the mode flags) at every member position, run
through parse, build and sizeof with keyword arguments.  Decided by trace validation against Sem/Context rules: the probe values, the
byte lengths they select and the frames they see must be those the specification prescribes, in all three operations.
"""
from .. import ast as A, gen, values as V, campaign, universes as U, tracer
from . import common

LEVEL = "model_checking"
KINDS = common.VALUE_KINDS

def run(ctx):
    rng = ctx.rng
    quick = ctx.quick()
    ctx.rule = ("a case is parse / build / sizeof of a nest of scope-opening constructs with a probe member; non-trivial = the probe's path goes "
                "through _ , _root, _params or _index")
    nprog = 2500 if quick else 30000
    nt = 0
    with campaign.Campaign(ctx, "c07", shard_size=1500) as camp:
        for i in range(nprog):
            prog = U.c07_program(rng)
            con = campaign.realizable(prog)
            if con is None:
                continue
            kw = rng.choice([{"k": 1}, {"k": 2}, {}, {"k": 0, "x": 1}])
            for _ in range(3):
                data = bytes(rng.choice([0, 1, 1, 2, 2, 3]) for _ in range(rng.randint(0, 14)))
                ip, p = camp.parse(prog, con, data, 0, kw)
                if p["res"]["ok"]:
                    try:
                        v = V.dec(p["res"]["v"])
                        camp.build(prog, con, v, b"", kw, arg=p["res"]["v"])
                    except Exception:
                        pass
            for _ in range(2):
                try:
                    camp.build(prog, con, gen.build_value(rng, prog, kw), b"", kw)
                except Exception:
                    pass
            camp.sizeof(prog, con, kw)
            if kw and i % 5 == 0 and "_params" in str(prog):
                # keyword arguments reach the context through every entry point: parse / parse_stream / parse_file, build / build_stream / build_file
                import io, os
                data = bytes(rng.choice([0, 1, 1, 2, 2, 3]) for _ in range(rng.randint(2, 10)))
                i0, p0 = camp.parse(prog, con, data, 0, kw)
                fn = os.path.join(ctx.scratch, "c07_in.bin")
                with open(fn, "wb") as f:
                    f.write(data)
                for how, run in (("parse", lambda: con.parse(data, **kw)), ("parse_file", lambda: con.parse_file(fn, **kw))):
                    ok, val, err = tracer._outcome(run)
                    j = camp.sh.add({"k": "Opaque", "desc": "entry:" + how}, {"op": "parse", "events": [], "res": {"ok": ok, "v": V.enc(val) if ok else V.VNone(), "err": err, "p": 0, "path": []}}, kw, data, 0, None, None, "entry")
                    camp.sh.session("C17.entry", [i0, j])
                if p0["res"]["ok"]:
                    try:
                        v = V.dec(p0["res"]["v"])
                    except Exception:
                        v = None
                    if v is not None:
                        ib, b0 = camp.build(prog, con, v, b"", kw, arg=p0["res"]["v"])
                        fo = os.path.join(ctx.scratch, "c07_out.bin")
                        for how, run in (("build", lambda: con.build(v, **kw)), ("build_file", lambda: (con.build_file(v, fo, **kw), open(fo, "rb").read())[1])):
                            ok, val, err = tracer._outcome(run)
                            j = camp.sh.add({"k": "Opaque", "desc": "entry:" + how}, {"op": "build", "events": [], "res": {"ok": ok, "v": V.VBytes(val) if ok else V.VNone(), "err": err, "p": 0, "path": []}}, kw, b"", 0, p0["res"]["v"], None, "entry")
                            camp.sh.session("C17.entry", [ib, j])
            if any(s in str(prog) for s in ("'_'", "_root", "_params", "_index")):
                nt += 1
            camp.sh.maybe_flush()
            if i < 3:
                ctx.sample({"program": prog, "kw": kw})
        vs = camp.validate()
        campaign.judge(ctx, camp, vs, conformance=lambda v, m: campaign.kind_of(v) in KINDS, clauses=("C17.entry",))
        ctx.cov["distinct_nontrivial"] = nt
