"""Targeted universes for the individual properties (programs, values, inputs), seeded."""
import itertools, random
from . import ast as A, gen, values as V

# ---------------------------------------------------------------- C08: delimiter nests
def delimiter(rng, sub, env_kw=None):
    r = rng.randrange(9)
    if r == 0: return A.Prefixed(rng.choice([A.Alias("Byte"), A.Alias("Int16ub"), A.VarInt, A.Alias("Int16ul")]), sub, incl=rng.random() < 0.3)
    if r == 1: return A.FixedSized(rng.choice([0, 1, 2, 3, 4, 5]), sub)
    if r == 2:
        term = rng.choice([b"\x00", b"\xff", b"\x00\x00", b"\x01\x02"])
        return A.NullTerminated(sub, term=term, include=rng.random() < 0.4, consume=rng.random() < 0.6, require=rng.random() < 0.7)
    if r == 3: return A.NullStripped(sub, pad=rng.choice([b"\x00", b"\xff", b"\x00\x00", b"\x00\x01", b"\x01\x00\x00", b"\x00\x00\x00"]))
    if r == 4: return A.OffsettedEnd(rng.choice([0, -1, -2]), sub)
    if r == 5: return A.ProcessXor(rng.choice([0, 1, 0xff, b"\x01\x80", b"\x00"]), sub)
    if r == 6: return A.Prefixed(A.Alias("Byte"), sub)
    if r == 7: return A.FixedSized(A.T("_params", "k"), sub)
    return A.Padded(rng.choice([2, 3, 4]), sub)

def c08_inner(rng):
    r = rng.randrange(11)
    if r == 0: return A.GreedyBytes
    if r == 1: return A.GreedyRange(A.Alias("Byte"))
    if r == 2: return A.Alias("Byte")
    if r == 3: return A.Bytes(2)
    if r == 4: return A.Tell
    if r == 5: return A.RawCopy(A.Alias("Byte"))
    if r == 6: return A.Struct(A.Renamed("t", A.Tell), A.Renamed("g", A.GreedyBytes))
    if r == 7: return A.Struct(A.Renamed("a", A.Alias("Byte")), A.Renamed("t", A.Tell), A.Renamed("r", A.RawCopy(A.GreedyBytes)))
    if r == 8: return A.Pointer(rng.choice([0, 1, 2]), A.Alias("Byte"))
    if r == 9: return A.Sequence(A.Tell, A.Bytes(1), A.Tell)
    return A.Struct(A.Renamed("p", A.Pointer(rng.choice([0, 1, 3]), A.Bytes(1))), A.Renamed("t", A.Tell))

def c08_program(rng, depth):
    n = c08_inner(rng)
    for _ in range(depth):
        n = delimiter(rng, n)
        if rng.random() < 0.3:
            n = A.Struct(A.Renamed("h", A.Bytes(rng.choice([0, 1, 2]))), A.Renamed("x", n), A.Renamed("t", A.Tell))
    return n

# ---------------------------------------------------------------- C09: look-ahead and alternatives
def c09_alt(rng, depth=1):
    r = rng.randrange(12)
    if r == 0: return A.Alias("Byte")
    if r == 1: return A.Alias("Int16ub")
    if r == 2: return A.Bytes(2)
    if r == 3: return A.VarInt
    if r == 4: return A.Prefixed(A.Alias("Byte"), A.GreedyBytes)
    if r == 5: return A.Const(bytes([rng.choice([0, 1, 0x7f])]) + bytes([rng.choice([0, 0xff])]))
    if r == 6: return A.OneOf(A.Alias("Byte"), [0, 1, 0x7f])
    if r == 7: return A.Struct(A.Renamed("a", A.Alias("Byte")), A.Check(A.Bin("==", A.T("a"), A.C(rng.choice([0, 1, 0xff])))), A.Renamed("b", A.Alias("Byte")))
    if r == 8: return A.Struct(A.Renamed("n", A.Alias("Byte")), A.Renamed("d", A.Bytes(A.T("n"))))
    if r == 9: return A.PascalString(A.Alias("Byte"), "utf8")
    if r == 10 and depth > 0: return A.Select(c09_alt(rng, depth - 1), c09_alt(rng, depth - 1))
    return A.Sequence(A.Alias("Byte"), A.Const(b"\x00"))

def c09_program(rng):
    r = rng.randrange(9)
    if r == 0: core = A.Peek(c09_alt(rng))
    elif r == 1: core = A.Pointer(rng.choice([0, 1, 2, 3, -1, -2]), c09_alt(rng))
    elif r == 2: core = A.Select(c09_alt(rng), c09_alt(rng))
    elif r == 3: core = A.Select(c09_alt(rng), c09_alt(rng), c09_alt(rng))
    elif r == 4: core = A.Optional(c09_alt(rng))
    elif r == 5: core = A.GreedyRange(c09_alt(rng), discard=rng.random() < 0.25)
    elif r == 6:
        subs = [A.Renamed(nm, c09_alt(rng)) for nm in "abc"[:rng.choice([1, 2, 3])]]
        if rng.random() < 0.4:          # members without a name are parsed from the common start too (signatures, padding)
            subs.insert(rng.randrange(len(subs) + 1), rng.choice([A.Const(b"\x01"), A.Padding(1), A.Bytes(2), A.Alias("Int16ub")]))
        pf = rng.choice([None, 0, len(subs) - 1, "a", A.T("a")]) if True else None
        core = A.Union(pf, *subs)
    elif r == 7: core = A.GreedyRange(A.Select(c09_alt(rng, 0), c09_alt(rng, 0)))
    else: core = A.Peek(A.Select(c09_alt(rng), A.Error))
    r2 = rng.randrange(6)
    if r2 >= 4:     # inside a length-limited region that does not start at offset 0 (end-relative targets are relative to the region's end)
        body = A.Struct(A.Renamed("x", core), A.Renamed("r", A.GreedyBytes))
        region = A.FixedSized(rng.choice([3, 4, 5]), body) if rng.random() < 0.7 else A.Prefixed(A.Alias("Byte"), body)
        if rng.random() < 0.35:     # a region inside a region, neither starting at offset 0 of what encloses it
            region = A.Prefixed(A.Alias("Byte"), A.Struct(A.Renamed("g", A.Bytes(rng.choice([1, 2]))), A.Renamed("q", region), A.Renamed("r2", A.GreedyBytes)))
        return A.Struct(A.Renamed("h", A.Bytes(rng.choice([1, 2, 3]))), A.Renamed("p", region), A.Renamed("t", A.Tell))
    if r2 == 0: return core
    if r2 == 1: return A.Struct(A.Renamed("x", core), A.Renamed("rest", A.GreedyBytes))
    if r2 == 2: return A.Struct(A.Renamed("h", A.Bytes(rng.choice([1, 2]))), A.Renamed("x", core), A.Renamed("t", A.Tell), A.Renamed("n", A.Alias("Byte")))
    return A.Sequence(core, A.Tell, core)

# ---------------------------------------------------------------- C13: constants, validators, label mappings
def c13_program(rng):
    sub = rng.choice([A.Alias("Byte"), A.Alias("Int8sb"), A.Alias("Int16ub"), A.Alias("Int16sl"), A.VarInt])
    r = rng.randrange(10)
    if r == 0: core = A.Const(rng.choice([0, 1, 127, 255]), A.Alias(rng.choice(["Byte", "Int16ub", "Int16ul"])))
    elif r == 1: core = A.Const(rng.choice([b"A", b"\x00\xff", b"MZ\x00"]))
    elif r == 2: core = A.Const("ab", A.CString("utf8"))
    elif r == 3: core = A.OneOf(sub, rng.sample([0, 1, 2, 127, 128, 255, -1, 300], 3))
    elif r == 4: core = A.NoneOf(sub, rng.sample([0, 1, 2, 127, 128, 255, -1, 300], 3))
    elif r == 5:
        labels = rng.sample(["one", "two", "three", "four"], rng.choice([1, 2, 3]))
        core = A.Enum(sub, **{l: v for l, v in zip(labels, rng.sample([0, 1, 2, 3, 127, 255, 300, -1], len(labels)))})
    elif r == 6:
        labels = rng.sample(["a", "b", "c", "d"], rng.choice([1, 2, 3, 4]))
        core = A.FlagsEnum(rng.choice([A.Alias("Byte"), A.Alias("Int16ub"), A.VarInt]), **{l: v for l, v in zip(labels, rng.sample([1, 2, 4, 8, 3, 0x80, 0x100, 6, 0], len(labels)))})
    elif r == 7:
        core = A.Mapping(rng.choice([A.Alias("Byte"), A.Bytes(1)]) if False else A.Alias("Byte"), list(zip(rng.sample(["x", "y", b"z", 5, None, True], 3), rng.sample([0, 1, 2, 3, 255], 3))))
    elif r == 8:
        core = A.Struct(A.Renamed("v", sub), A.Check(A.Bin(rng.choice(["==", "!=", "<", ">="]), A.T("v"), A.C(rng.choice([0, 1, 127, 128])))))
    else:
        inner = rng.choice([A.Error, A.Struct(A.Renamed("a", A.Alias("Byte")), A.Error), A.Sequence(A.If(A.Bin("==", A.T("_index") if False else A.C(1), A.C(1)), A.Error))])
        wrap = rng.randrange(5)
        core = [A.Select(inner, A.Alias("Byte")), A.Optional(inner), A.GreedyRange(A.Select(A.Const(b"\x01"), inner)),
                A.Peek(inner), A.Select(A.Alias("Int16ub"), inner, A.Pass)][wrap]
    if rng.random() < 0.14:
        # predicates that are not comparisons: bit tests and arithmetic whose value is an integer (admitted iff truthy), bitwise or / and of integers
        O = A.Obj
        pred = rng.choice([A.Bin("&", O, A.C(0x80)), A.Bin("%", O, A.C(2)), A.Bin("==", A.Bin("|", O, A.C(1)), O), A.Bin("==", A.Bin("|", O, A.C(0x0f)), A.C(0xff)),
                           A.Bin("-", O, A.C(3)), A.Bin("&", A.Bin(">", O, A.C(1)), A.Bin("<", O, A.C(200))), A.Bin("|", A.Bin("==", O, A.C(0)), A.Bin("&", O, A.C(6))),
                           A.Bin("^", O, A.C(5)), A.Uni("not", A.Bin("&", O, A.C(1))), A.Bin(">>", O, A.C(7))])
        if rng.random() < 0.6:
            core = A.ExprValidator(rng.choice([A.Alias("Byte"), A.Alias("Int8sb"), A.Alias("Int16ub")]), pred)
        else:
            import json as _j
            core = A.Struct(A.Renamed("v", A.Alias("Byte")), A.Check(_j.loads(_j.dumps(pred).replace(_j.dumps(O), _j.dumps(A.T("v"))))))
    if rng.random() < 0.12:
        # the constrained member may be absent (None): the constraint still applies to what is returned
        opt = rng.choice([A.Optional(A.Alias("Byte")), A.If(A.C(False), A.Alias("Byte")), A.Select(A.Const(b"\x07"), A.Pass), A.IfThenElse(A.C(True), A.Pass, A.Alias("Byte"))])
        core = rng.choice([A.OneOf(opt, [1, 2]), A.NoneOf(opt, [None, 0]), A.Mapping(opt, [("absent", None), ("one", 1)]), A.OneOf(opt, [None, 7])])
    if rng.random() < 0.4:
        return A.Struct(A.Renamed("x", core), A.Renamed("t", A.Alias("Byte")))
    return core

def c13_values(rng, prog):
    "values for build: in and out of the constraint"
    vals = []
    for _ in range(6):
        try:
            vals.append(gen.build_value(rng, prog))
        except Exception:
            pass
    return vals

# ---------------------------------------------------------------- C07: scopes and reference paths
SCOPES = ["Struct", "Sequence", "FocusedSeq", "Union", "Array", "GreedyRange", "RepeatUntil", "LazyStruct"]
PATHS = [("x",), ("_", "x"), ("_", "_", "x"), ("_root", "x"), ("_params", "k"), ("_index",), ("_", "_index"),
         ("_parsing",), ("_building",), ("_sizing",), ("_", "_params", "k"), ("_root", "_params", "k"), ("y",), ("_", "y")]

def probe(rng, path):
    e = A.T(*path)
    r = rng.randrange(4)
    if r == 0: return A.Computed(e)
    if r == 1 and path[-1] in ("x", "y", "k", "_index"): return A.Bytes(e)
    if r == 2 and path[-1] in ("x", "y", "k"): return A.Array(e, A.Alias("Byte"))
    return A.Computed(e)

def transparent(rng, sub):
    r = rng.randrange(8)
    if r == 0: return A.IfThenElse(True, sub, A.Pass)
    if r == 1: return A.Switch(1, [(1, sub)])
    if r == 2: return A.Select(sub, A.Pass) if False else A.Optional(sub)
    if r == 3: return A.Prefixed(A.Alias("Byte"), sub)
    if r == 4: return A.FixedSized(8, sub) if False else A.Padded(0, sub) if False else sub
    if r == 5: return A.Array(1, sub)
    if r == 6: return A.Default(sub, 0) if False else sub
    return sub

def c07_scope(rng, depth, names):
    """a scope-opening construct whose members are: x, y (bytes with values), a probe, possibly a nested scope"""
    kind = rng.choice(SCOPES)
    path = rng.choice(PATHS)
    members = [A.Renamed("x", A.Alias("Byte")), A.Renamed("y", A.Alias("Byte"))]
    r = rng.random()
    if r < 0.15:        # a member whose value is made at build time: later references must see what was written, not what was given
        members[0] = A.Renamed("x", A.Default(A.Alias("Byte"), rng.choice([1, 2, 3])))
    elif r < 0.3:
        members[0] = A.Renamed("x", A.Rebuild(A.Alias("Byte"), A.Bin("+", A.Bin("%", A.T("y"), A.C(3)), A.C(1))))
    elif r < 0.38:      # ... behind a wrapper that has nothing to add (the member already fills its alignment unit)
        members[0] = A.Renamed("x", A.Aligned(2, A.Default(A.Alias("Int16ub"), rng.choice([1, 2, 3]))))
    elif r < 0.46:      # a member whose name starts with an underscore is a sibling like any other: visible to earlier members on build
        members[0] = A.Renamed("x", A.Rebuild(A.Alias("Byte"), A.Bin("+", A.Bin("%", A.T("_u"), A.C(3)), A.C(1))))
        members.append(A.Renamed("_u", A.Alias("Byte")))
    inner = []
    if depth > 0:
        sub = c07_scope(rng, depth - 1, names)
        if rng.random() < 0.5:
            sub = transparent(rng, sub)
        inner.append(A.Renamed("s", sub))
    pr = A.Renamed("p", probe(rng, path))
    body = members + ([pr] + inner if rng.random() < 0.5 else inner + [pr])
    if kind == "Struct": return A.Struct(*body)
    if kind == "LazyStruct": return A.N("LazyStruct", subs=body)
    if kind == "Sequence": return A.Sequence(*body)
    if kind == "FocusedSeq": return A.FocusedSeq(rng.choice(["p", "x", "s"] if inner else ["p", "x"]), *body)
    if kind == "Union": return A.Union(rng.choice([None, 0, "x"]), *body)
    elem = A.Struct(*body)
    disc = rng.random() < 0.25        # a repeater that throws its elements away runs them in the same scopes, with the same indexes
    if kind == "Array": return A.Array(rng.choice([1, 2, 3]), elem, discard=disc)
    if kind == "GreedyRange": return A.GreedyRange(elem, discard=disc)
    return A.RepeatUntil(A.Bin("==", A.Item(A.Obj, "x"), A.C(0)), elem, discard=disc)

def c07_program(rng):
    return c07_scope(rng, rng.choice([0, 1, 2]), [])

# ---------------------------------------------------------------- systematic small scope: every wrapper x every leaf x position
def sys_leaves():
    L = [A.Alias(a) for a in ["Byte", "Int16ub", "Int16sl", "Int24ub", "Int32ul", "Int8sb", "Float32b", "Float64l", "Half"]]
    L += [A.BytesInteger(3, signed=True, swapped=True), A.VarInt, A.ZigZag, A.Flag, A.Bytes(1), A.Bytes(3),
          A.PaddedString(4, "utf8"), A.PaddedString(6, "utf_16_le"), A.PascalString(A.Alias("Byte"), "utf8"), A.PascalString(A.VarInt, "utf_16_be"),
          A.CString("utf8"), A.CString("utf_16_le"), A.Const(b"\x01\x02\x03"), A.Const(7, A.Alias("Int16ub")),
          A.Enum(A.Alias("Byte"), one=1, two=2), A.FlagsEnum(A.Alias("Byte"), a=1, b=2, c=0x80), A.FlagsEnum(A.Alias("Byte"), r=1, w=2, rw=3, x=4, none=0), A.Mapping(A.Alias("Byte"), [("x", 0), ("y", 1)]),
          A.Default(A.Alias("Byte"), 7), A.Default(A.Alias("Int16ub"), 0x8000), A.OneOf(A.Alias("Byte"), [0, 1, 2, 3]),
          A.Struct(A.Renamed("n", A.Alias("Byte")), A.Renamed("d", A.Bytes(A.T("n")))),
          A.Struct(A.Renamed("n", A.Rebuild(A.Alias("Byte"), A.Func("len", A.T("d")))), A.Renamed("d", A.Bytes(A.T("n")))),
          A.Sequence(A.Renamed("v", A.Default(A.Alias("Byte"), 2)), A.Renamed("b", A.IfThenElse(A.Bin("==", A.T("v"), A.C(2)), A.Alias("Int16ub"), A.Alias("Byte")))),
          A.BitStruct(A.Renamed("a", A.BitsInteger(3)), A.Renamed("b", A.BitsInteger(5, signed=True))),
          A.BitStruct(A.Renamed("a", A.Alias("Nibble")), A.Renamed("b", A.BitsInteger(12)), A.Renamed("c", A.BitsInteger(16, signed=True, swapped=True))),
          A.Computed(A.C(5)), A.Pass, A.Padding(2), A.Tell,
          # wrappers that size their window from the member's sizeof at construction, over members that exactly fill their alignment
          A.ByteSwapped(A.AlignedStruct(2, A.Renamed("a", A.Alias("Int16ub")), A.Renamed("b", A.Alias("Int8ub")))), A.BitsSwapped(A.Aligned(4, A.Alias("Int32ub"))),
          A.Bitwise(A.Aligned(8, A.Struct(A.Renamed("a", A.Alias("Nibble")), A.Renamed("b", A.Alias("Nibble"))))),
          # a read to the end of a streaming bit-level region that starts in the middle of a byte
          A.Bitwise(A.Struct(A.Renamed("a", A.Alias("Nibble")), A.Renamed("rest", A.GreedyBytes))),
          A.Bitwise(A.Struct(A.Renamed("a", A.BitsInteger(3)), A.Renamed("rest", A.GreedyRange(A.BitsInteger(5)))))]
    return L

def sys_wrappers():
    W = [lambda x: x,
         lambda x: A.Array(2, x), lambda x: A.Array(A.T("_params", "k"), x), lambda x: A.PrefixedArray(A.Alias("Byte"), x), lambda x: A.PrefixedArray(A.VarInt, x),
         lambda x: A.Prefixed(A.Alias("Byte"), x), lambda x: A.Prefixed(A.Alias("Int16ul"), x, incl=True), lambda x: A.Prefixed(A.VarInt, x), lambda x: A.Prefixed(A.VarInt, x, incl=True),
         lambda x: A.FixedSized(12, x), lambda x: A.Padded(12, x), lambda x: A.Padded(12, x, pat=0x20),
         lambda x: A.Aligned(4, x), lambda x: A.Aligned(3, x, pat=0xaa), lambda x: A.Aligned(8, x), lambda x: A.AlignedStruct(4, A.Renamed("p", x), A.Renamed("q", A.Alias("Byte"))),
         lambda x: A.Optional(x), lambda x: A.Select(x, A.Alias("Int32ub")), lambda x: A.IfThenElse(A.Bin(">", A.T("_params", "k"), A.C(1)), x, A.Pass),
         lambda x: A.If(A.T("_params", "k"), x), lambda x: A.Switch(A.T("_params", "k"), [(1, x), (2, A.Alias("Byte"))], default=x),
         lambda x: A.NullTerminated(x, term=b"\xfe"), lambda x: A.NullTerminated(x, term=b"\xfe\xfe", include=False),
         lambda x: A.RawCopy(x), lambda x: A.Hex(x), lambda x: A.HexDump(x), lambda x: A.Struct(A.Renamed("i", x)), lambda x: A.Sequence(x, A.Alias("Byte")),
         lambda x: A.FocusedSeq("v", A.Const(b"\x55"), A.Renamed("v", x)), lambda x: A.Default(x, None) if False else A.Struct(A.Renamed("v", x), A.Renamed("w", A.Computed(A.T("v")))),
         lambda x: A.GreedyRange(x), lambda x: A.RepeatUntil(A.Bin("==", A.Func("len", A.Lst), A.C(2)) if False else A.C(True), x),
         lambda x: A.ProcessXor(0x5a, A.Prefixed(A.Alias("Byte"), x)) if False else A.Prefixed(A.Alias("Byte"), A.ProcessXor(0x5a, x)),
         lambda x: A.Prefixed(A.Alias("Byte"), A.ProcessXor(b"\x01\x02\x03", x)), lambda x: A.Prefixed(A.Alias("Byte"), A.ProcessRotateLeft(3, 1, x)),
         lambda x: A.Prefixed(A.Alias("Byte"), A.NullStripped(x, pad=b"\xfd")),
         # a relative seek (terminator left in place) inside a region that does not start at offset 0
         lambda x: A.Prefixed(A.Alias("Byte"), A.Sequence(A.NullTerminated(x, term=b"\xfe", consume=False), A.Const(b"\xfe"))),
         lambda x: A.FixedSized(14, A.Sequence(A.NullTerminated(x, term=b"\xfe\xfe", consume=False, include=True), A.Bytes(1))),
         # whole-byte and mixed rotations over groups wider than two bytes (the member padded to a multiple of the group)
         lambda x: A.FixedSized(12, A.ProcessRotateLeft(24, 4, A.Padded(12, x))), lambda x: A.FixedSized(12, A.ProcessRotateLeft(8, 3, A.Padded(12, x))),
         lambda x: A.FixedSized(12, A.ProcessRotateLeft(-13, 6, A.Padded(12, x))),
         ]
    return W

def lookahead_wrappers():
    return [lambda x: A.Peek(x), lambda x: A.Pointer(0, x), lambda x: A.Pointer(2, x), lambda x: A.Struct(A.Renamed("p", A.Peek(x)), A.Renamed("v", x)),
            lambda x: A.Union(0, A.Renamed("u", x), A.Renamed("w", A.Alias("Byte"))), lambda x: A.Union(None, A.Renamed("u", x))]

def lazy_wrappers():
    "Lazy skips its member by the size Construct._actualsize reports (Prefixed and PrefixedArray read their prefix for it)"
    return [lambda x: A.N("Lazy", sub=x), lambda x: A.N("Lazy", sub=A.Prefixed(A.Alias("Byte"), x)), lambda x: A.N("Lazy", sub=A.Prefixed(A.Alias("Int16ub"), x, incl=True)),
            lambda x: A.N("Lazy", sub=A.PrefixedArray(A.Alias("Byte"), x)), lambda x: A.N("Lazy", sub=A.Renamed("m", A.Prefixed(A.Alias("Byte"), x))),
            lambda x: A.N("LazyArray", count=A.C(2), sub=x), lambda x: A.N("LazyArray", count=A.T("_params", "k"), sub=A.Prefixed(A.Alias("Byte"), x)),
            lambda x: A.N("LazyStruct", subs=[A.Renamed("a", x), A.Renamed("b", A.Prefixed(A.Alias("Byte"), A.GreedyBytes)), A.Renamed("c", A.Alias("Byte"))])]

def fixed_programs():
    """(program, keywords, values) always included by the round-trip checks: shapes that need a particular position or particular values"""
    nib_rest = A.Bitwise(A.Struct(A.Renamed("a", A.Alias("Nibble")), A.Renamed("rest", A.GreedyBytes)))
    b3_range = A.Bitwise(A.Struct(A.Renamed("a", A.BitsInteger(3)), A.Renamed("rest", A.GreedyRange(A.BitsInteger(5)))))
    v1 = [{"a": 10, "rest": b"\x01\x00\x01\x01"}, {"a": 0, "rest": b"\x01\x01\x01\x01" + b"\x00\x01" * 4}, {"a": 15, "rest": b""}]
    v2 = [{"a": 5, "rest": [17]}, {"a": 0, "rest": [1, 2, 3, 4, 5]}, {"a": 7, "rest": []}]
    out = [(nib_rest, {}, v1), (b3_range, {}, v2),
           (A.Prefixed(A.Alias("Byte"), nib_rest), {}, v1),
           (A.Struct(A.Renamed("h", A.Bytes(3)), A.Renamed("x", A.Prefixed(A.Alias("Byte"), b3_range)), A.Renamed("t", A.Alias("Byte"))), {},
            [{"h": b"abc", "x": v, "t": 9} for v in v2]),
           (A.Struct(A.Renamed("n", A.Alias("Byte")), A.Renamed("x", A.FixedSized(3, nib_rest))), {}, [{"n": 1, "x": {"a": 3, "rest": bytes([1, 0] * 10)}}])]
    out += recursive_programs() + list_adapter_programs() + measuring_in_streams()
    # keyword arguments read through _params from inside nested scopes that are not Structs (the scope a PrefixedArray / FocusedSeq opens)
    W = A.T("_params", "w")
    out += [(A.Struct(A.Renamed("k", A.Alias("Byte")), A.Renamed("items", A.PrefixedArray(A.Alias("Byte"), A.BytesInteger(W)))), {"w": 2}, [{"k": 1, "items": [1, 258]}, {"k": 0, "items": []}]),
            (A.Struct(A.Renamed("w", A.Alias("Byte")), A.Renamed("items", A.PrefixedArray(A.Alias("Byte"), A.BytesInteger(W)))), {"w": 2}, [{"w": 1, "items": [1, 2]}, {"w": 3, "items": [513]}]),
            (A.Sequence(A.Alias("Byte"), A.FocusedSeq("d", A.Const(b"\x01"), A.Renamed("d", A.Bytes(W)))), {"w": 2}, [[5, b"ab"]]),
            (A.PrefixedArray(A.Alias("Byte"), A.PrefixedArray(A.Alias("Byte"), A.BytesInteger(W, swapped=True))), {"w": 2}, [[[1, 2], [], [772]]]),
            (A.Struct(A.Renamed("h", A.Alias("Byte")), A.Renamed("s", A.Struct(A.Renamed("f", A.FocusedSeq("x", A.Renamed("x", A.Array(W, A.Alias("Byte")))))))), {"w": 2}, [{"h": 1, "s": {"f": [7, 8]}}])]
    # positions counted from the end, inside regions that do not start at offset 0
    out += [(A.Struct(A.Renamed("hdr", A.Alias("Int16ub")), A.Renamed("body", A.Prefixed(A.Alias("Byte"), A.Struct(A.Renamed("data", A.OffsettedEnd(-2, A.GreedyBytes)), A.Renamed("crc", A.Bytes(2)))))), {},
             [{"hdr": 1, "body": {"data": b"abcde", "crc": b"XY"}}, {"hdr": 1, "body": {"data": b"", "crc": b"XY"}}]),
            (A.Struct(A.Renamed("hdr", A.Bytes(3)), A.Renamed("body", A.FixedSized(6, A.Struct(A.Renamed("last", A.Pointer(-1, A.Alias("Byte"))), A.Renamed("data", A.OffsettedEnd(-1, A.GreedyBytes)), A.Renamed("e", A.Alias("Byte"))))), A.Renamed("t", A.Alias("Byte"))), {},
             [{"hdr": b"abc", "body": {"last": 9, "data": b"12345", "e": 9}, "t": 1}]),
            (A.Array(2, A.Prefixed(A.Alias("Byte"), A.Struct(A.Renamed("d", A.OffsettedEnd(-1, A.GreedyBytes)), A.Renamed("c", A.Alias("Byte"))))), {}, [[{"d": b"ab", "c": 1}, {"d": b"xyz", "c": 2}]])]
    return out

def measuring_in_streams():
    "members that measure what their content consumed (Aligned), with content that reads to the end, inside streaming wrappers: the wrapper's position is what they measure with"
    bits = lambda n: bytes([1, 0] * (n // 2))
    return [(A.BitsSwapped(A.Aligned(4, A.GreedyBytes)), {}, [b"abcd", b"abcde", b"", b"abcdefgh"]),
            (A.Bitwise(A.Aligned(16, A.GreedyBytes)), {}, [bits(16), bits(8), bits(24)]),
            (A.BitsSwapped(A.AlignedStruct(4, A.Renamed("hdr", A.Alias("Int16ub")), A.Renamed("payload", A.GreedyBytes))), {}, [{"hdr": 1, "payload": b"ab"}, {"hdr": 2, "payload": b"abc"}]),
            (A.Prefixed(A.Alias("Byte"), A.Bitwise(A.Aligned(16, A.GreedyBytes))), {}, [bits(16), bits(8)]),
            (A.Struct(A.Renamed("h", A.Alias("Byte")), A.Renamed("x", A.Prefixed(A.Alias("Byte"), A.BitsSwapped(A.Aligned(3, A.GreedyBytes)))), A.Renamed("t", A.Alias("Byte"))), {},
             [{"h": 1, "x": b"ab", "t": 2}, {"h": 1, "x": b"abc", "t": 2}])]

def recursive_programs():
    "recursive formats (LazyBound): a linked list, a tree, a chain of length-prefixed envelopes"
    def chain(vals):
        node = None
        for v in reversed(vals):
            node = {"value": v, "next": node}
        return node
    lst = A.Rec("d", A.Struct(A.Renamed("value", A.Alias("Byte")), A.Renamed("next", A.If(A.Bin(">", A.T("value"), A.C(0)), A.LazyBound("d")))))
    def tree_v(shape):
        return {"n": len(shape), "kids": [tree_v(k) for k in shape]}
    tree = A.Rec("t", A.Struct(A.Renamed("n", A.Rebuild(A.Alias("Byte"), A.Func("len", A.T("kids")))), A.Renamed("kids", A.Array(A.T("n"), A.LazyBound("t")))))
    env = A.Rec("p", A.Prefixed(A.Alias("Byte"), A.Struct(A.Renamed("tag", A.Alias("Byte")), A.Renamed("inner", A.If(A.Bin("==", A.T("tag"), A.C(1)), A.LazyBound("p"))), A.Renamed("tail", A.GreedyBytes))))
    def env_v(depth, tail):
        return {"tag": 1 if depth else 0, "inner": env_v(depth - 1, tail) if depth else None, "tail": tail}
    return [(lst, {}, [chain([0]), chain([5, 0]), chain([1, 2, 3, 0]), {"value": 5, "next": None}, chain([0, 7, 0]), {"value": 2}]),
            (A.Struct(A.Renamed("h", A.Alias("Byte")), A.Renamed("l", lst), A.Renamed("t", A.Alias("Byte"))), {}, [{"h": 9, "l": chain([3, 0]), "t": 8}]),
            (tree, {}, [tree_v([]), tree_v([[], []]), tree_v([[[]], [], [[], []]]), {"kids": [{"kids": []}]}]),
            (env, {}, [env_v(0, b"xy"), env_v(1, b"z"), env_v(3, b""), {"tag": 1, "inner": None, "tail": b""}])]

def list_adapter_programs():
    "Indexing / Slicing around fixed and greedy lists"
    arr = A.Array(4, A.Alias("Byte"))
    return [(A.Indexing(arr, 4, 2, empty=0), {}, [3, 0, 255, 256, None]),
            (A.Indexing(arr, 4, -1, empty=7), {}, [3, 0]),
            (A.Indexing(arr, 4, 4, empty=0), {}, [3]),
            (A.Indexing(A.GreedyRange(A.Alias("Byte")), 3, 1, empty=0), {}, [9, 0]),
            (A.Slicing(arr, 4, 1, 3, empty=0), {}, [[2, 3], [2], [2, 3, 4], [], None, 5]),
            (A.Slicing(arr, 4, 1, None, empty=0), {}, [[2, 3, 4], [2]]),
            (A.Slicing(arr, 4, None, None, empty=0), {}, [[1, 2, 3, 4], [1]]),
            (A.Slicing(arr, 4, 0, 4, 2, empty=9), {}, [[1, 2], [1], [1, 2, 3]]),
            (A.Slicing(A.GreedyRange(A.Alias("Byte")), 3, 1, 2, empty=0), {}, [[5], [0]]),
            (A.Struct(A.Renamed("h", A.Alias("Byte")), A.Renamed("s", A.Slicing(arr, 4, 3, 1, empty=1)), A.Renamed("t", A.Alias("Byte"))), {}, [{"h": 1, "s": [], "t": 2}, {"h": 1, "s": [8], "t": 2}])]

def systematic(rng, frac=1.0, extra=()):
    """Struct(h: Bytes(hlen), x: W(L), t: Byte) for every wrapper W, leaf L and header length -- so that every class is met
    behind an odd-sized neighbour and in front of another member"""
    leaves = sys_leaves()
    out = []
    for wi, w in enumerate(sys_wrappers() + list(extra)):
        for li, l in enumerate(leaves):
            if rng.random() > frac:
                continue
            core = w(l)
            hl = rng.choice([0, 1, 1, 2, 3, 5])
            tail = rng.choice([A.Alias("Byte"), A.Alias("Int16ub"), A.GreedyBytes])
            greedy = core["k"] == "GreedyRange"
            if greedy:
                prog = A.Struct(A.Renamed("h", A.Bytes(hl)), A.Renamed("x", core))
            else:
                prog = A.Struct(A.Renamed("h", A.Bytes(hl)), A.Renamed("x", core), A.Renamed("t", tail))
            out.append(prog)
    return out
