# stand-in package: the real ruamel.yaml is not installed in this sandbox (see DESIGN.md, C19)
