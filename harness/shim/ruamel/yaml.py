"""Stand-in for ruamel.yaml, only what Construct.export_ksy() uses: YAML().dump(data, stream).
It writes JSON (a YAML subset) and, like the real representer, raises on anything that is not plain data
(expression objects, constructs, bytes): such an export fails, i.e. the construct is outside the exportable fragment."""
import json

class RepresenterError(Exception):
    pass

class YAML:
    default_flow_style = False
    def dump(self, data, stream):
        def bad(o):
            raise RepresenterError("cannot represent an object: %r" % (type(o).__name__,))
        stream.write(json.dumps(data, default=bad))
